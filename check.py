#!/venv/bin/python
"""Entry point of every check:  check.py <property id> [--tier quick|thorough] [--replay path]

exit 0: the property held on everything explored (known findings are printed, not failed)
exit 1: a line `VIOLATION property=<id> replay=<path>` was printed
exit 2: the machinery itself failed (never a verdict about the code)
"""
import argparse
import os
import sys
import time
import traceback

HERE = os.path.dirname(os.path.abspath(__file__))
sys.path.insert(0, os.path.join(HERE, "lib"))

import common  # noqa: E402


def main():
    ap = argparse.ArgumentParser()
    ap.add_argument("pid")
    ap.add_argument("--tier", default=os.environ.get("VERIF_TIER", "quick"), choices=["quick", "thorough"])
    ap.add_argument("--replay", default=None)
    a = ap.parse_args()
    if os.environ.get("PYTHONHASHSEED") != "0":
        # the compiler iterates over sets of scope names: its output can depend on string hashing.  Every process of a
        # check (this one, the compile workers forked from it, helper interpreters) runs with the same fixed hashing.
        env = dict(os.environ, PYTHONHASHSEED="0")
        os.execve(sys.executable, [sys.executable, os.path.abspath(__file__)] + sys.argv[1:], env)
    os.environ[common.GUARD] = "1"
    sys.path.insert(0, os.path.join(common.REPO, "src"))
    # helper processes started by the code under test (constexpr evaluation) must import the same tree
    os.environ["PYTHONPATH"] = os.path.join(common.REPO, "src") + (os.pathsep + os.environ["PYTHONPATH"] if os.environ.get("PYTHONPATH") else "")
    os.environ.pop("PYTHONDONTWRITEBYTECODE", None)
    try:
        import checks_lang
        import checks_proc
        import checks_text
        import checks_src
    except Exception:
        traceback.print_exc()
        print("MACHINERY-FAILURE: the harness does not import")
        return 2

    table = {}
    table.update(checks_lang.CHECKS)
    table.update(checks_proc.CHECKS)
    table.update(checks_text.CHECKS)
    table.update(checks_src.CHECKS)
    if a.pid not in table:
        print("unknown property", a.pid)
        return 2
    t0 = time.time()
    try:
        common.ensure_build()
        rc = table[a.pid](a.tier, t0)
    except common.MachineryError as e:
        print("MACHINERY-FAILURE: %s" % e)
        return 2
    except Exception:
        traceback.print_exc()
        print("MACHINERY-FAILURE: unexpected exception in the harness")
        return 2
    finally:
        try:
            import compilew

            compilew.close_pool()
        except Exception:
            pass
    return rc


if __name__ == "__main__":
    sys.exit(main())
