#!/venv/bin/python
"""MANIFEST.setup_cmd: offline; exports the opcode table from the specification and parses every module."""
import glob
import os
import subprocess
import sys

HERE = os.path.dirname(os.path.abspath(__file__))
sys.path.insert(0, os.path.join(HERE, "lib"))
import common

common.ensure_build()
bad = 0
for f in sorted(glob.glob(os.path.join(common.SPEC, "*.tla"))):
    p = subprocess.run(["java", "-cp", common.TLA_JARS, "-DTLA-Library=" + common.SPEC, "tla2sany.SANY", f],
                       stdout=subprocess.PIPE, stderr=subprocess.STDOUT, cwd=common.SPEC)
    out = p.stdout.decode()
    ok = p.returncode == 0 and "Semantic errors" not in out and "Fatal" not in out and "Could not parse" not in out
    print(("ok   " if ok else "FAIL ") + os.path.basename(f))
    if not ok:
        print(out[-1500:])
        bad += 1
os.makedirs(common.EVIDENCE, exist_ok=True)
sys.exit(1 if bad else 0)
