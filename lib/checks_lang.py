"""Language-level checks: every one loads artefacts of the real compiler (emitted text, H1
streams) into the IC10 machine specification and lets TLC explore all device inputs inside
the bounds (spec/Equiv2.tla over spec/IC10Core.tla), or evaluates a text specification
(spec/Labels.tla, spec/Compact.tla) on the artefacts."""
import copy
import itertools
import json
import os
import re
import sys
import time

import compilew as cw
import corpus
import equiv
import ic10load
from common import MachineryError, REPO, Reporter, SPEC, known_findings, run_tlc, seed, workdir, write_evidence

LANG_FAMS = ["branches", "loops", "functions", "pressure", "access", "lists"]


def all_progs(fams=LANG_FAMS):
    out = []
    for f in fams:
        out += [(n, s, f) for n, s in corpus.family(f)]
    return out


def pick(progs, tier, nquick):
    if tier == "thorough":
        return progs
    items = corpus.slice_([(n, s) for n, s, f in progs], nquick, seed())
    keep = {n for n, _ in items}
    # witnesses of listed known findings stay in every run (their KNOWN-FINDING line is printed every time)
    for f in known_findings().get("findings", []):
        keep |= set(f.get("cases", []))
    return [p for p in progs if p[0] in keep]


def compile_matrix(progs, vecs):
    """{(name, vecname): result-with-events}"""
    jobs = []
    keys = []
    for n, s, _ in progs:
        for v in vecs:
            jobs.append({"src": s, "options": v})
            keys.append((n, cw.vec_name(v)))
    res = cw.compile_many(jobs)
    out = {}
    for k, r in zip(keys, res):
        if r["raised"]:
            raise MachineryError("compile_code raised for %s: %s" % (k, r["raised"]))
        out[k] = r
    return out


def code_of(r):
    res = r["result"]
    return res.get("code") if isinstance(res, dict) and "code" in res else None


def mutant_of(case):
    """Binding self-test: the first externally visible write of B gets another value; the run
    must report a mismatch for this case, otherwise the check is not looking at the artefact."""
    c = copy.deepcopy(case)
    for i in c["pb"]:
        if i["op"] in ("s", "sb", "sbn", "ss", "sbs", "put", "putd") and not (i["op"] == "put" and i["a"] and i["a"][0] == ["d", "db"]):
            i["a"][-1] = ["v", [12345, 1]]
            return c
    return None


def undefined_jump_targets(text):
    """label-like targets of jumps / branches of an IC10 text that no line defines"""
    lines = [ic10load.tokenize(l) for l in text.split("\n")]
    labels = {t[0][:-1] for t in lines if len(t) == 1 and t[0].endswith(":")}
    out = set()
    for t in lines:
        if len(t) >= 2 and (t[0] in ("j", "jal") or (t[0].startswith("b") and not t[0].startswith("br"))):
            tgt = t[-1]
            if re.fullmatch(r"[A-Za-z_][\w.]*", tgt) and tgt not in labels and tgt not in ("ra", "sp") and not re.fullmatch(r"r\d+", tgt):
                out.add(tgt)
    return sorted(out)


def run_equiv_check(pid, tier, t0, items, level, rule, assumptions, extra_cov=None, expect_mutant=True,
                    violation_filter=None, batches=8, outer=None):
    """items: list of {name, tag, case, sample}.  Runs Equiv2, reports, writes evidence."""
    rep = Reporter(pid)
    cases = [it["case"] for it in items]
    mut_idx = None
    if expect_mutant:
        for k, it in enumerate(items):
            m = mutant_of(it["case"])
            if m is not None:
                cases = cases + [m]
                mut_idx = len(cases) - 1
                break
        if mut_idx is None:
            raise MachineryError("no case with an externally visible write: nothing to bind to")
    to = 900 if tier == "thorough" else 300
    verdicts, st = equiv.run_cases(pid, cases, batches=batches, workers=2, timeout=to,
                                   single_timeout=120 if tier == "thorough" else 45)
    if mut_idx is not None:
        if not any(equiv.is_violation(v) for v in verdicts[mut_idx]):
            raise MachineryError("binding self-test failed: a corrupted artefact was accepted (%s)" % verdicts[mut_idx])
    nviol = 0
    inconclusive = {}
    complete = 0
    for k, it in enumerate(items):
        vs = verdicts[k]
        bad = [v for v in vs if equiv.is_violation(v)]
        if violation_filter:
            bad = [v for v in bad if violation_filter(v)]
        # the candidate text has an operand the loader cannot resolve where the reference text ran fine: inconclusive in general,
        # but a jump or branch to a label that is defined nowhere is a fault of the text itself
        if "INCONCLUSIVE:B:UNRESOLVED_OPERAND" in vs and it.get("b_text"):
            ud = undefined_jump_targets(it["b_text"])
            if ud:
                bad.append("JUMP_TO_UNDEFINED_LABEL:" + ",".join(ud))
        for v in vs:
            if v.startswith("INCONCLUSIVE"):
                inconclusive[v] = inconclusive.get(v, 0) + 1
        if not [v for v in vs if v.startswith("INCONCLUSIVE")]:
            complete += 1
        for v in sorted(bad):
            clause = v.split(":")[-1] if v.startswith(("MON_", "FAULT_")) else v.split(":")[0] if v.startswith("JUMP_TO_UNDEFINED") else v
            new = rep.violation([it["name"], it["name"] + "@" + it["tag"]] + it.get("keys", []), clause,
                                {"property": pid, "case": it["name"], "variant": it["tag"], "verdict": v,
                                 "source": it.get("src"), "a_text": it.get("a_text"), "b_text": it.get("b_text"),
                                 "tlc_case": it["case"]},
                                "case=%s variant=%s verdict=%s" % (it["name"], it["tag"], v))
            nviol += 1 if new else 0
    cov = {
        "states": max(1, st["states"]),
        "transitions": max(1, st["transitions"]),
        "traces_validated_against_impl": len(items),
        "evaluations": len(items),
        "distinct_nontrivial": len({json.dumps(it["case"]["pb"], sort_keys=True) for it in items}),
        "rule": rule,
        "samples": [it["sample"] for it in items[:3]],
        "cases_explored_completely": complete,
        "inconclusive": inconclusive,
        "tlc_runs": st["tlc_runs"],
        "binding_self_test": "mutant artefact rejected" if mut_idx is not None else "n/a",
        "known_findings_hit": sorted(set(rep.known) | set(outer.known if outer is not None else [])),
    }
    if extra_cov:
        cov.update(extra_cov)
    # outer: the caller's reporter (verdicts of the check's other specifications); its findings belong to the same evidence
    write_evidence(pid, tier, level, cov, time.time() - t0, violations=nviol + (len(outer.violations) if outer is not None else 0), assumptions=assumptions)
    return rep.finish()


ASSUME_IC10 = [
    "IC10 instruction semantics as fixed in spec/IC10Core.tla and spec/Values.tla (DESIGN 3.3 table); no executable game reference exists in the sandbox",
    "device reads range over the case's input domain (at most {-1,0,1,2}); values may change after every externally visible effect",
    "exploration per case is cut at maxn matched effects and Fuel silent steps; cut cases are reported as inconclusive in coverage, never as violations",
]


def sample_of(name, tag, src, code):
    return {"case": name, "variant": tag, "source": src, "emitted": code}


# ---------------------------------------------------------------------------------------
# option vectors
# ---------------------------------------------------------------------------------------
def semantic_vectors(tier):
    names = cw.SEMANTIC
    allv = []
    for bits in itertools.product([False, True], repeat=5):
        allv.append(cw.opts(**dict(zip(names, bits))))
    allv = [v for v in allv if cw.vec_name(v) != "-"]
    if tier == "thorough":
        return allv
    # pairwise-covering selection of the 5 semantic options (every pair of values occurs)
    want = ["I", "L", "C", "T", "P", "ILCTP", "IC", "LT", "CP", "ILP", "LCT", "ITP"]
    return [v for v in allv if cw.vec_name(v) in want]


def comment_vectors():
    return [cw.opts(original_code_as_comment=True, generated_comments=True, append_version=True),
            cw.opts(generated_comments=True, inline_functions=True, compact=True),
            cw.opts(append_version=True, remove_labels=True, use_push_pop_functions=True),
            cw.opts(original_code_as_comment=True, append_version=True, remove_labels=True)]


def pragma_text(v):
    tags = []
    for k in cw.OPTION_NAMES:
        tags.append((k if v[k] else "no-" + k).replace("_", "-"))
    return "# pytrapic: " + ", ".join(tags) + "\n"


# ---------------------------------------------------------------------------------------
# C02
# ---------------------------------------------------------------------------------------
def check_c02(tier, t0):
    progs = pick(all_progs(), tier, 30) + names_family(twice=True)
    if not any(n == "br_long_remarks" for n, _, _ in progs):
        progs += [p for p in all_progs(["branches"]) if p[0] == "br_long_remarks"]
    vecs = semantic_vectors(tier) + comment_vectors()
    if tier == "quick":
        # every program under 5 seeded vectors + the comment vectors; every vector used
        pass
    mat = compile_matrix(progs, [cw.REF] + vecs)
    items = []
    skipped = 0
    import random

    rnd = random.Random(seed())
    for n, s, fam in progs:
        ref = code_of(mat[(n, "-")])
        if ref is None:
            skipped += 1
            continue
        pa = ic10load.load(ref)
        wit = {c for f in known_findings().get("findings", []) for c in f.get("cases", [])}
        vs = vecs if (tier == "thorough" or n in wit or n == "br_long_remarks") else rnd.sample(vecs, 6)
        for v in vs:
            tag = cw.vec_name(v)
            code = code_of(mat[(n, tag)])
            if code is None:
                # an option vector turns a compilable program into an error: behaviour not preserved
                items.append(None)
                continue
            pb = ic10load.load(code)
            items.append({"name": n, "tag": tag, "case": equiv.make_case(pa, pb), "src": s, "a_text": ref,
                          "b_text": code, "sample": sample_of(n, tag, s, code)})
    items = [i for i in items if i]
    # delivery through '# pytrapic:' lines: same text as through the API
    jobs = []
    meta = []
    for n, s, fam in progs[:: max(1, len(progs) // 8)]:
        for v in vecs[:: max(1, len(vecs) // 3)]:
            flipped = {k: not v[k] for k in cw.OPTION_NAMES}
            jobs.append({"src": pragma_text(v) + s, "options": flipped})
            meta.append((n, s, v))
    rep_extra = []
    for (n, s, v), r in zip(meta, cw.compile_many(jobs)):
        tag = cw.vec_name(v)
        code_api = code_of(mat[(n, tag)])
        code_pr = code_of(r) if not r["raised"] else None
        if code_api is None or code_pr is None:
            continue
        ref = code_of(mat[(n, "-")])
        items.append({"name": n, "tag": "pragma:" + tag, "case": equiv.make_case(ic10load.load(ref), ic10load.load(code_pr)),
                      "src": pragma_text(v) + s, "a_text": ref, "b_text": code_pr,
                      "sample": sample_of(n, "pragma:" + tag, pragma_text(v) + s, code_pr)})
    rule = ("program families %s (deterministic grids, seeded slice in the quick tier) x option vectors "
            "(quick: 6 seeded of 12 pairwise-covering semantic + 3 comment vectors per program; thorough: all 31 semantic + 3); "
            "each case = emitted text under the vector vs emitted text under the reference vector (labels kept, no "
            "inlining, verbose, fixed slots), run as two IC10 machines over all device inputs in the domain; a case is "
            "non-trivial/distinct when its candidate program text differs from every other case's" % LANG_FAMS)
    return run_equiv_check("C02", tier, t0, items, "translation_validation", rule, ASSUME_IC10,
                           extra_cov={"programs": len(items), "disagreements_checked": len(items),
                                      "option_vectors": [cw.vec_name(v) for v in vecs], "compile_errors_skipped": skipped})


# ---------------------------------------------------------------------------------------
# C04: virtual-register machine (H1 pre stream) vs allocated program (H1 post stream)
# ---------------------------------------------------------------------------------------
REG_TOK = re.compile(r"^r(\d+)$")


def h1_streams(r):
    ev = r["events"] or []
    pre = [e for e in ev if e["ev"] == "h1_pre"]
    post = [e for e in ev if e["ev"] == "h1_post"]
    if len(pre) != 1 or len(post) != 1:
        return None, None
    return pre[0], post[0]


def check_binding_h1(code, post):
    """The post stream must be the emitted program (labels kept): same non-label lines."""
    a = [ic10load.tokenize(l) for l in code.split("\n")]
    a = [t for t in a if t and not (len(t) == 1 and t[0].endswith(":"))]
    b = [ic10load.tokenize(e["text"]) for e in post["stream"]]
    b = [t for t in b if t and not (len(t) == 1 and t[0].endswith(":"))]
    return a == b


RA_WITNESS = (corpus.HEADER + "def fz(xn):\n    for ia in range(2):\n        for ib in range(2):\n            va = xn + 3\n            d1.Setting = va\n"
              "        va = va + 5\n        for ic in range(2):\n            vb = va + 7\n    return 0\n"
              "while True:\n    d5.Setting = fz(d0.Setting)\n    d5.Setting = fz(1)\n    yield_()\n")


def big_programs():
    """programs with 17 / 20 / 24 simultaneously live values, in one scope and split between a caller and a function called twice"""
    big = []
    for k in (17, 20, 24):
        reads = "\n".join("    w%d = d0.Setting + %d" % (i, i) for i in range(k))
        tot = " + ".join("w%d" % i for i in range(k))
        big.append(("pr_over_%d" % k, corpus.HEADER + "while True:\n" + reads + "\n    d1.Setting = " + tot + "\n    d2.Setting = w0 - w%d\n    yield_()\n" % (k - 1), "pressure"))
    for outer, inner in [(o, i) for o in range(3, 8) for i in range(3, 8) if 7 <= o + i <= 10]:
        ireads = "\n".join("    u%d = xa + %d" % (i, i + 1) for i in range(inner - 1))
        itot = " + ".join("u%d" % i for i in range(inner - 1))
        oreads = "\n".join("    w%d = d0.Setting + %d" % (i, i + 1) for i in range(outer - 1))
        otot = " + ".join("w%d" % i for i in range(outer - 1))
        big.append(("pr_split_%d_%d" % (outer, inner), corpus.HEADER + "def fa(xa):\n" + ireads + "\n    return " + itot + "\nwhile True:\n" + oreads +
                    "\n    wz = fa(w0) + fa(1)\n    d1.Setting = wz + " + otot + "\n    yield_()\n", "pressure"))
        # one register more (a plain load has no temporary): the counts step by two otherwise
        big.append(("pr_splitx_%d_%d" % (outer, inner), corpus.HEADER + "def fa(xa):\n    ux = d2.Setting\n" + ireads + "\n    return ux + " + itot + "\nwhile True:\n" + oreads +
                    "\n    wz = fa(w0) + fa(1)\n    d1.Setting = wz + " + otot + "\n    yield_()\n", "pressure"))
    # exactly sixteen and exactly seventeen registers: module-level values live across two calls of a function with five locals
    for extra in (False, True):
        src = (corpus.HEADER + "def fa(xa):\n" + "".join("    t%d = d1.Setting + xa\n" % k for k in range(5)) + "    d1.Setting = t0 + t1 + t2 + t3 + t4\n"
               + "".join("v%d = d0.Setting\n" % k for k in range(4)) + ("wr = d0.Ratio\n" if extra else "") + "fa(v0)\nfa(v1)\nd0.Setting = v0 + v1 + v2 + v3\n"
               + ("d0.Ratio = wr\n" if extra else ""))
        big.append(("pr_exactly_%d" % (17 if extra else 16), src, "pressure"))
    return big


def check_c04(tier, t0):
    import proggen
    progs = pick(all_progs(), tier, 90)
    gen, _gr = proggen.generate("C04_gen", 200 if tier == "thorough" else 30, seed() + 4, max_lines=10, max_depth=3, nfuncs=2)
    progs = progs + [(n, s, "generated") for n, s, _ in gen]
    vecs = [cw.REF, cw.opts(inline_functions=True), cw.opts(use_push_pop_functions=True, tail_call_optimization=True)]
    if tier == "thorough":
        vecs += [cw.opts(inline_functions=True, use_push_pop_functions=True), cw.opts(tail_call_optimization=True)]
    # function bodies from RegAlloc.tla (the allocator as implemented next to liveness as required): skeletons drawn by
    # TLC -simulate (thorough: also every skeleton of a small configuration); the model predicts where the implemented
    # line-interval lifetimes under-approximate liveness, the product below decides what the real allocator does
    import regalloc
    sks, _rr = regalloc.skeletons("C04_ra", seed(), 7, False, n=(4000 if tier == "thorough" else 250))
    if tier == "thorough":
        sks += regalloc.skeletons("C04_rax", seed(), 4, True)[0]
    ra_meta = {}
    for k, sk in enumerate(sks):
        src, dl = regalloc.render(sk)
        nm = "ra_%04d" % k
        ra_meta[nm] = (sk, dl)
        progs.append((nm, src, "regalloc"))
    progs.append(("ra_witness_sibling_loops", RA_WITNESS, "regalloc"))
    mat = compile_matrix(progs, vecs)
    rep = Reporter("C04")
    items = []
    range_viol = 0
    rejected = 0
    ra_agree = ra_total = 0
    for n, s, fam in progs:
        for v in vecs:
            tag = cw.vec_name(v)
            r = mat[(n, tag)]
            code = code_of(r)
            if code is None:
                d = (r["result"] or {}).get("error", {}).get("description", "")
                if "registers" in d:
                    rejected += 1
                continue
            # only r0..r15 may appear
            for line in code.split("\n"):
                for tok in ic10load.tokenize(line):
                    m = REG_TOK.match(tok)
                    if m and int(m.group(1)) > 15:
                        range_viol += 1 if rep.violation([n, n + "@" + tag], "REG_RANGE",
                                                         {"property": "C04", "case": n, "variant": tag, "source": s, "code": code},
                                                         "case=%s variant=%s register %s emitted" % (n, tag, tok)) else 0
            pre, post = h1_streams(r)
            if pre is None:
                raise MachineryError("H1 hook events missing for %s@%s (is the hook commit applied?)" % (n, tag))
            if not check_binding_h1(code, post):
                raise MachineryError("H1 post stream is not the emitted program for %s@%s" % (n, tag))
            la = ic10load.Loader("\n".join(e["text"] for e in pre["stream"]))
            pa = la.load()
            pb = ic10load.load("\n".join(e["text"] for e in post["stream"]))
            if len(la.vregs) > 60:
                continue
            c = equiv.make_case(pa, pb, maxn=(10 if fam == "regalloc" else 4))
            c["nrega"] = 17 + len(la.vregs)
            extra_keys = []
            if n in ra_meta and tag == "-":
                sk, dl = ra_meta[n]
                part = regalloc.real_partition(r["events"], dl)
                pred = sk["colours"]
                if part is not None:
                    ra_total += 1
                    syms = [x for x in pred if x in part]
                    ra_agree += len(syms) == len(pred) and all((pred[a] == pred[b]) == (part[a] == part[b]) for a in syms for b in syms)
            if n in ra_meta and ra_meta[n][0]["clobbers"]:
                extra_keys.append("ra:predicted_clobber")
            items.append({"name": n, "tag": tag, "keys": extra_keys, "case": c, "src": s, "a_text": "\n".join(e["text"] for e in pre["stream"]),
                          "b_text": code, "sample": {"case": n, "variant": tag, "virtual": [e["text"] for e in pre["stream"]][:12],
                                                     "allocated": [e["text"] for e in post["stream"]][:12]}})
    # ---- the simulation relation, step by step (spec/Lockstep.tla): every register read agrees between the two streams ----
    import absint
    lcases = []
    for it in items:
        c = it["case"]
        lcases.append({"pa": absint.annotate_abs(copy.deepcopy(c["pa"])), "pb": absint.annotate_abs(copy.deepcopy(c["pb"])), "dom": c["dom"],
                       "maxn": 6, "maxlevel": 0, "nrega": c["nrega"]})
    # binding self-test: the allocated stream of the first case with one read register renamed to a fresh one must be rejected
    lmut = None
    for lc in lcases:
        m = copy.deepcopy(lc)
        for ins in m["pb"]:
            rd = [k for k, o in enumerate(ins["a"]) if o[0] == "r" and o[1] < 16 and not (k == 0 and ins.get("out"))]
            if rd and ins["op"] in ("s", "add", "sub", "mul", "move"):
                used = {o[1] for i2 in m["pb"] for o in i2["a"] if o[0] == "r"}
                free = [x for x in range(16) if x not in used]
                if free:
                    ins["a"][rd[0]] = ["r", free[0]]
                    lmut = m
                break
        if lmut:
            break
    lv, lst = equiv.run_cases("C04_lock", lcases + ([lmut] if lmut else []), batches=8, workers=2, timeout=900 if tier == "thorough" else 300,
                              single_timeout=120 if tier == "thorough" else 45, spec="Lockstep")
    if lmut is not None and not any(equiv.is_violation(v) for v in lv[len(lcases)]):
        raise MachineryError("binding self-test failed: Lockstep.tla accepted an allocated stream that reads a register nobody wrote (%s)" % lv[len(lcases)])
    lock_viol = 0
    lock_incon = {}
    pred_total = sum(1 for it in items if "ra:predicted_clobber" in it.get("keys", []) and it["tag"] == "-")
    pred_seen = sum(1 for it, vs in zip(items, lv) if "ra:predicted_clobber" in it.get("keys", []) and it["tag"] == "-" and "READ_VALUE_DIFFERS" in vs)
    for it, vs in zip(items, lv):
        for v in sorted(vs):
            if v.startswith("INCONCLUSIVE"):
                lock_incon[v] = lock_incon.get(v, 0) + 1
            elif equiv.is_violation(v):
                lock_viol += 1 if rep.violation([it["name"], it["name"] + "@" + it["tag"]] + it.get("keys", []), v,
                                                {"property": "C04", "case": it["name"], "variant": it["tag"], "verdict": v, "source": it.get("src"),
                                                 "a_text": it.get("a_text"), "b_text": it.get("b_text"), "spec": "Lockstep.tla"},
                                                "case=%s variant=%s lockstep verdict=%s" % (it["name"], it["tag"], v)) else 0
    # programs that need more than 16 registers must be rejected, not emitted
    big = big_programs()
    bm = compile_matrix(big, [cw.REF])
    for n, s, _ in big:
        r = bm[(n, "-")]
        code = code_of(r)
        if code is not None:
            regs = {t for l in code.split("\n") for t in ic10load.tokenize(l) if REG_TOK.match(t)}
            # accepted only if it really fits (then the equivalence check covers it)
            if any(int(t[1:]) > 15 for t in regs):
                rep.violation([n], "REG_RANGE", {"property": "C04", "case": n, "source": s, "code": code}, "case=%s emitted beyond r15" % n)
        else:
            rejected += 1
    rule = ("for each program x option vector the H1 hook exports the instruction stream before allocation (one machine "
            "register per virtual name) and after allocation; both are run as IC10 machines over all inputs and must "
            "produce the same effects (a live value overwritten by another changes an effect for some input); plus: "
            "emitted registers within r0..r15, programs with 17..24 simultaneously live values rejected")
    rc_extra = {"programs_rejected_out_of_registers": rejected, "regalloc_skeletons": len(sks),
                "lockstep_cases": len(lcases), "clobbers_predicted_by_RegAlloc_tla_and_observed_in_lockstep": "%d of %d" % (pred_seen, pred_total), "lockstep_states": lst["states"], "lockstep_inconclusive": lock_incon,
                "lockstep_rule": "spec/Lockstep.tla: both streams run line by line against one environment; before every step each register the "
                                 "instruction reads must hold the same value under its virtual and its physical name (a clobber is seen at the first "
                                 "read of the destroyed value, whether or not an effect changes inside the bound)",
                "regalloc_skeletons_with_predicted_clobber": sum(1 for sk in sks if sk["clobbers"]),
                "allocator_decisions_explained_by_RegAlloc_tla": "%d of %d" % (ra_agree, ra_total)}
    rc = run_equiv_check("C04", tier, t0, items, "model_checking", rule,
                         ASSUME_IC10 + ["the virtual-register stream exported by hook H1 is the allocator's input (checked: the post stream equals the emitted text)"],
                         extra_cov=rc_extra, outer=rep)
    rc2 = rep.finish()
    return 1 if (rc or rc2) else 0


# ---------------------------------------------------------------------------------------
# C05: labels
# ---------------------------------------------------------------------------------------
def names_family(twice=False):
    """identifier sets for functions: prefixes of one another, '_' segments (labels use '.'),
    opcode-like, register/device-like.  twice: every function is called from two places, so none is
    inlined (C02 uses this form: the single-call form has the shape of the listed inlining defect)"""
    sets = [
        ("nm_prefix", ["upd", "updx", "updxy"]),
        ("nm_suffix", ["run", "prerun", "rerun"]),
        ("nm_opcode", ["add", "move", "yield_x"]),
        ("nm_reglike", ["r1x", "spx", "dbx"]),
        ("nm_digits", ["f1", "f10", "f100"]),
        ("nm_end", ["fa", "faend", "endfa"]),
        ("nm_underscore_prefix", ["update", "update_display", "display"]),
        ("nm_underscore_chain", ["aa_bb", "bb_cc", "aa_bb_cc"]),
        ("nm_underscore_head", ["read", "read_value", "other_thing"]),
    ]
    out = []
    for nm, (fa, fb, fc) in sets:
        src = (corpus.HEADER + f"def {fa}(xa):\n    d1.Setting = xa\n    return xa + 1\n"
               f"def {fb}(xa):\n    if xa > 0:\n        return {fa}(xa) * 2\n    return 3\n"
               f"def {fc}(xa):\n    return {fb}(xa) - {fa}(xa)\n"
               f"while True:\n    d2.Setting = {fc}(d0.Setting) + {fa}(1)\n" +
               (f"    d3.Setting = {fb}(2) + {fc}(1)\n" if twice else "") + "    yield_()\n")
        out.append((nm + ("2" if twice else ""), src, "names"))
    out.append(("nm_device_named_like_labels", label_like_names_program(), "names"))
    return out


def label_like_names_program():
    """device names / HASH arguments that equal a function's name or a generated label (the labels are substituted textually)"""
    return (corpus.HEADER + "def fill(xa):\n    d1.Setting = xa\n    return xa + 1\n"
            "while True:\n    d0.Setting = fill(d0.Setting) + fill(2)\n    ActiveVents[\"fill\"].On = 1\n"
            "    if d2.Setting > 0:\n        d2.Setting = HASH(\"lbwhile1\") + d0.Setting\n    d3.Setting = HASH(\"lbwhile2\")\n"
            "    d4.Setting = HASH(\"a fill b\")\n    d5.Setting = HASH(\"fillend\")\n    ActiveVents[\"lbend3\"].Lock = 1\n    ActiveVents[\"lbend4\"].Lock = 0\n    yield_()\n")


def owners_of(code, post):
    """owning function of every line of the labels-kept text, from hook H1's post stream (None: unknown)"""
    if post is None:
        return None
    stream = post["stream"]
    lab_fn = {}
    instr = []
    for e in stream:
        t = ic10load.tokenize(e["text"])
        if len(t) == 1 and t[0].endswith(":"):
            lab_fn.setdefault(t[0][:-1], e.get("fn"))
        elif t:
            instr.append(e.get("fn"))
    out = []
    k = 0
    for l in code.split("\n"):
        t = ic10load.tokenize(l)
        if len(t) == 1 and t[0].endswith(":") and len(t[0]) > 1:
            out.append(lab_fn.get(t[0][:-1]))
        elif t:
            out.append(instr[k] if k < len(instr) else None)
            k += 1
        else:
            out.append(None)
    return out


def label_lines(code, owners=None):
    out = []
    sig = ic10load.opsig()
    for l in code.split("\n"):
        t = ic10load.tokenize(l)
        if len(t) == 1 and t[0].endswith(":") and len(t[0]) > 1:
            out.append({"lab": t[0][:-1], "toks": [], "tgt": ""})
        else:
            tgt = ""
            kinds = sig.get(t[0], []) if t else []
            for k, kind in enumerate(kinds):
                if kind == "T" and k + 1 < len(t):
                    tok = t[k + 1]
                    if ic10load.IDENT_RE.match(tok) and ic10load.reg_index(tok) is None:
                        tgt = tok
            out.append({"lab": "", "toks": t, "tgt": tgt})
    for k, rec in enumerate(out):
        o = owners[k] if owners is not None and k < len(owners) else None
        rec["fn"] = "?" if o is None else o
    return out


def modules_as_programs():
    """library programs for the label checks: split sources (dict) incl. a library function with an early return
    that is called twice and whose name also exists in the main file / does not exist there"""
    H = corpus.HEADER
    out = [(n, split, "modules") for n, split, merged in modules_family()]
    lib_c = H + "def update(xa):\n    if xa > 1:\n        return xa * 2\n    d3.Setting = xa\n    return xa + 1\n"
    main5 = H + "from library import ctl\nwhile True:\n    d1.Setting = ctl.update(d0.Setting) + ctl.update(1)\n    yield_()\n"
    out.append(("md_early_only", {"": main5, "ctl": lib_c}, "modules"))
    return out


def relative_text(code):
    """remove_labels(code, relative_numbers=True) of the real pass applied to a finished labels-kept text (None: not callable)"""
    try:
        src = os.path.join(REPO, "src")          # the tree under check (VERIF_REPO), like the compile workers
        if src not in sys.path:
            sys.path.insert(0, src)
        from stationeers_pytrapic.generate_code import CompilerPassGatherCode as G
        g = G.__new__(G)
        return g.strip_code(g.remove_labels(code, relative_numbers=True))
    except Exception:
        return None


def labels_gen_replay(deep=False):
    """spec -> code: Labels.tla GenSpec enumerates every small text over compiler-shaped lines and nested names with
    Resolve / ResolveRel of it; each text goes through the real remove_labels in both modes.  Returns the statistics."""
    d = workdir("C05_gen")
    with open(os.path.join(d, "cases.json"), "w") as f:
        f.write("[]")
    with open(os.path.join(d, "Gen.cfg"), "w") as f:
        f.write("SPECIFICATION GenSpec\nCHECK_DEADLOCK FALSE\n" + ("CONSTANT GenLen <- GenLen5\n" if deep else ""))
    gen_path = os.path.join(d, "gen.json")
    if os.path.exists(gen_path):
        os.remove(gen_path)
    r = run_tlc(os.path.join(SPEC, "Labels.tla"), os.path.join(d, "Gen.cfg"), d, workers=1, timeout=1200, extra=["-maxSetSize", "30000000"])
    gen_path = os.path.join(d, "gen.json")
    if not r.ok or not os.path.exists(gen_path):
        raise MachineryError("Labels.tla GenSpec run failed:\n" + r.out[-3000:])
    gen = json.load(open(gen_path))
    src = os.path.join(REPO, "src")
    if src not in sys.path:
        sys.path.insert(0, src)
    from stationeers_pytrapic.generate_code import CompilerPassGatherCode as G
    g = G.__new__(G)
    from stationeers_pytrapic.generate_code import remove_unused_labels
    stat = {"texts": len(gen), "absolute_equal": 0, "relative_equal": 0, "labelled_equal": 0, "absolute_differ": [], "relative_differ": [], "labelled_differ": []}
    for c in gen:
        text = "\n".join((l["lab"] + ":") if l["lab"] else " ".join(l["toks"]) for l in c["kept"])
        for mode, want, rel in (("absolute", c["abs"], False), ("relative", c["rel"], True), ("labelled", c["used"], None)):
            try:
                out = remove_unused_labels(text) if rel is None else g.remove_labels(text, relative_numbers=rel)
                got = [ln.split() for ln in out.split("\n") if ln.strip()]
            except Exception as e:
                got = ["raised " + type(e).__name__]
            if got == [list(w) for w in want]:
                stat[mode + "_equal"] += 1
            elif len(stat[mode + "_differ"]) < 5:
                stat[mode + "_differ"].append({"text": text, "spec": want, "code": got})
            else:
                stat[mode + "_differ"].append(None)
    for mode in ("absolute", "relative", "labelled"):
        n = len(stat[mode + "_differ"])
        stat[mode + "_differ_count"] = n
        stat[mode + "_differ"] = [x for x in stat[mode + "_differ"] if x]
    return stat


def check_c05(tier, t0):
    progs = names_family() + modules_as_programs() + pick(all_progs(["branches", "loops", "functions"]), tier, 14)
    if not any(n == "br_long_remarks" for n, _, _ in progs):
        progs += [p for p in all_progs(["branches"]) if p[0] == "br_long_remarks"]
    # comment options must not move any target either (source remarks, version note)
    bases = [cw.REF, cw.opts(use_push_pop_functions=True), cw.opts(original_code_as_comment=True, append_version=True)]
    if tier == "thorough":
        bases += [cw.opts(inline_functions=True), cw.opts(tail_call_optimization=True), cw.opts(compact=True)]
    vecs = []
    for b in bases:
        vecs += [b, dict(b, remove_labels=True)]
    mat = compile_matrix(progs, vecs)
    rep = Reporter("C05")
    items = []
    static = []
    rel_items = []
    for n, s, fam in progs:
        for b in bases:
            ka, kb = cw.vec_name(b), cw.vec_name(dict(b, remove_labels=True))
            ca, cb = code_of(mat[(n, ka)]), code_of(mat[(n, kb)])
            if ca is None or cb is None:
                if (ca is None) != (cb is None):
                    rep.violation([n, n + "@" + kb], "COMPILE_DIFFERS", {"property": "C05", "case": n, "source": s},
                                  "case=%s compiles with labels kept xor removed" % n)
                continue
            items.append({"name": n, "tag": kb, "case": equiv.make_case(ic10load.load(ca), ic10load.load(cb)), "src": s,
                          "a_text": ca, "b_text": cb, "sample": sample_of(n, kb, s, cb)})
            pre_a, post_a = h1_streams(mat[(n, ka)])
            entries = sorted(fi["label"] for fname, fi in (pre_a["functions"].items() if pre_a else []) if fname and fi["emitted"] and not fi["inlined"])
            static.append({"name": n, "tag": kb, "kept": label_lines(ca, owners_of(ca, post_a)), "removed": label_lines(cb), "entries": entries,
                           "src": s, "a_text": ca, "b_text": cb})
            # relative mode of the same pass (no option reaches it): the labels-kept text through remove_labels(relative_numbers=True)
            rel = relative_text(ca)
            if rel is not None:
                static[-1]["rel"] = label_lines(rel)
                static[-1]["rel_text"] = rel
                if b is cw.REF:
                    rel_items.append({"name": n, "tag": "relative", "case": equiv.make_case(ic10load.load(ca), ic10load.load(rel)), "src": s,
                                      "a_text": ca, "b_text": rel, "sample": sample_of(n, "relative", s, rel)})
    # static part: spec/Labels.tla evaluated by TLC on the artefacts
    d = workdir("C05_static")
    with open(os.path.join(d, "cases.json"), "w") as f:
        json.dump([dict({"kept": c["kept"], "removed": c["removed"], "entries": c["entries"]}, **({"rel": c["rel"]} if "rel" in c else {})) for c in static] +
                  [{"kept": static[0]["kept"], "removed": static[0]["removed"][:-1], "entries": static[0]["entries"]}], f)  # last = mutant (self-test)
    with open(os.path.join(d, "Labels.cfg"), "w") as f:
        f.write("SPECIFICATION Spec\nCHECK_DEADLOCK FALSE\n")
    r = run_tlc(os.path.join(SPEC, "Labels.tla"), os.path.join(d, "Labels.cfg"), d, workers=4, timeout=600)
    if not r.ok:
        raise MachineryError("Labels.tla run failed:\n" + r.out[-3000:])
    sv = r.verdicts()
    if not any(v not in ("OK", "reported") for v in sv.get(len(static) + 1, [])):
        raise MachineryError("binding self-test failed: Labels.tla accepted a truncated artefact")
    static_states = r.distinct
    # relative mode: conformance of a code path no option reaches; a mismatch is printed and counted, it is not a C05 alarm
    # (the property is stated over result['code'])
    rv = r.verdicts("RELVERDICT")
    rel_stat = {"cases": 0, "match": 0, "mismatch": [], "skipped": 0}
    for t, vs in rv.items():
        if t > len(static):
            continue
        for v in vs:
            rel_stat["cases"] += 1
            if v == "REL_OK":
                rel_stat["match"] += 1
            elif v.startswith("REL_SKIPPED"):
                rel_stat["skipped"] += 1
            else:
                rel_stat["mismatch"].append([static[t - 1]["name"], static[t - 1]["tag"], v])
                print("NOTE relative-mode text differs from Labels.tla ResolveRel: case=%s variant=%s %s" % (static[t - 1]["name"], static[t - 1]["tag"], v))
    for t, vs in sv.items():
        if t == len(static) + 1:
            continue
        c = static[t - 1]
        for v in vs:
            if v in ("reported", "OK"):
                continue
            rep.violation([c["name"], c["name"] + "@" + c["tag"]], v,
                          {"property": "C05", "case": c["name"], "variant": c["tag"], "verdict": v, "source": c["src"],
                           "labels_kept": c["a_text"], "labels_removed": c["b_text"]},
                          "case=%s variant=%s static verdict=%s" % (c["name"], c["tag"], v))
    rule = ("identifier sets (prefix/suffix overlap, '_' segments, opcode- and register-like names) and programs of the "
            "branch/loop/function families, each compiled with labels kept and removed under the same other options; "
            "static: Labels.tla Resolve(kept) must equal the removed-labels text token for token, every referenced label "
            "defined exactly once, every numeric target inside the program; dynamic: both texts run as IC10 machines")
    # relative text run against the labelled text as IC10 machines (same reporting rule: counted, not an alarm)
    if rel_items:
        rel_items = rel_items if tier == "thorough" else rel_items[:24]
        rvd, rst = equiv.run_cases("C05rel", [it["case"] for it in rel_items], batches=4, workers=2, timeout=300, single_timeout=45)
        bad = [(it["name"], sorted(v for v in vs if equiv.is_violation(v))) for it, vs in zip(rel_items, rvd) if any(equiv.is_violation(v) for v in vs)]
        for nm, vs in bad:
            print("NOTE relative-mode text behaves differently from the labelled text: case=%s %s" % (nm, vs))
        rel_stat.update({"dynamic_cases": len(rel_items), "dynamic_differ": bad, "dynamic_states": rst["states"]})
    # spec -> code: every small text Labels.tla generates, through the real method in both modes (counted, not an alarm:
    # the texts use the compiler's line shapes and label forms but are not compiler output)
    gen_stat = labels_gen_replay(deep=(tier == "thorough"))
    for mode in ("absolute", "relative", "labelled"):
        if gen_stat[mode + "_differ_count"]:
            print("NOTE remove_labels (%s mode) differs from Labels.tla on %d of %d generated texts, first: %s"
                  % (mode, gen_stat[mode + "_differ_count"], gen_stat["texts"], json.dumps(gen_stat[mode + "_differ"][0])))
    rc = run_equiv_check("C05", tier, t0, items, "model_checking", rule, ASSUME_IC10,
                         extra_cov={"static_cases": len(static), "static_states": static_states, "relative_mode": rel_stat,
                                    "spec_to_code_replay": gen_stat}, outer=rep)
    rc2 = rep.finish()
    return 1 if (rc or rc2) else 0


# ---------------------------------------------------------------------------------------
# C06 / C07: call and return monitors
# ---------------------------------------------------------------------------------------
def annotated(r, code, push_pop):
    pre, _ = h1_streams(r)
    if pre is None:
        raise MachineryError("H1 hook events missing")
    finfo = {}
    for fname, fi in pre["functions"].items():
        if fname and fi["emitted"] and not fi["inlined"] and not fi["is_constexpr"]:
            finfo[fi["label"]] = fi
    prog = ic10load.load(code)
    return equiv.annotate_functions(prog, set(finfo), push_pop, finfo), finfo


def all_paths(pid, items):
    """IC10Abs.tla on the candidate program of every item: all paths, no bound on inputs or ticks.  An abstract alarm is
    never a verdict by itself (infeasible paths): it is listed in evidence unless the concrete product reports it too."""
    import absint

    seen, progs, names = {}, [], []
    for it in items:
        key = json.dumps(it["case"]["pb"], sort_keys=True)
        if key in seen:
            continue
        seen[key] = True
        progs.append(absint.annotate_abs(copy.deepcopy(it["case"]["pb"])))
        names.append(it["name"] + "@" + it["tag"])
    vs, r = absint.run_abs(pid + "_abs", progs)
    alarms = {n: sorted(v) for n, v in zip(names, vs) if v}
    return {"all_paths_programs": len(progs), "all_paths_proved": sum(1 for v in vs if not v), "all_paths_abstract_states": r.distinct,
            "all_paths_alarms_listed_not_reported": alarms}


def check_c06(tier, t0):
    progs = pick(all_progs(["functions", "pressure"]) + names_family(twice=True)[:3], tier, 16)
    vecs = [cw.REF, cw.opts(use_push_pop_functions=True), cw.opts(tail_call_optimization=True),
            cw.opts(use_push_pop_functions=True, tail_call_optimization=True),
            cw.opts(inline_functions=True, tail_call_optimization=True), cw.opts(inline_functions=True),
            cw.opts(inline_functions=True, use_push_pop_functions=True)]
    if tier == "thorough":
        vecs += [dict(v, compact=True) for v in vecs[1:]] + [cw.opts(inline_functions=True, tail_call_optimization=True, use_push_pop_functions=True)]
    mat = compile_matrix(progs, vecs)
    items = []
    ncalls = 0
    for n, s, fam in progs:
        ref = code_of(mat[(n, "-")])
        if ref is None:
            continue
        pa, fi = annotated(mat[(n, "-")], ref, False)
        if not fi:
            continue
        for v in vecs:
            tag = cw.vec_name(v)
            code = code_of(mat[(n, tag)])
            if code is None:
                continue
            pb, fib = annotated(mat[(n, tag)], code, v["use_push_pop_functions"])
            ncalls += sum(1 for i in pb if "cal" in i)
            items.append({"name": n, "tag": tag, "case": equiv.make_case(pa, pb), "src": s, "a_text": ref, "b_text": code,
                          "sample": sample_of(n, tag, s, code)})
    if ncalls == 0:
        raise MachineryError("vacuous: no call instruction annotated")
    rule = ("function-family programs (call chains, diamonds, arity 0-3, early returns, returns inside loops, calls as "
            "arguments) x calling conventions {fixed slots, push/pop} x tail calls on/off, labels kept; monitor of "
            "IC10Core: every taken jal pushes <<return line, sp>>, every 'j ra' of a function must go to the top entry "
            "with sp = recorded sp (+1 returned value in push/pop); plus effect equality against the reference convention")
    ap = all_paths("C06", items)
    return run_equiv_check("C06", tier, t0, items, "model_checking", rule + "; plus IC10Abs.tla: the same monitor on ALL paths of every candidate program (data values forgotten, every branch both ways)",
                           ASSUME_IC10 + ["function entry labels, arities and has-return-value come from hook H1 (function table)",
                                          "IC10Abs.tla over-approximates IC10Core.tla (argued in its header); writes to the chip's memory with a run-time address do not hit a saved return address"],
                           extra_cov=dict(ap, annotated_call_sites=ncalls),
                           violation_filter=lambda v: not v.endswith(("FALLTHROUGH", "ENTERED_WITHOUT_CALL")))


def check_c07(tier, t0):
    progs = [(n, s, "term") for n, s in corpus.family("term")] + all_progs(["functions"])
    vecs = [cw.REF, cw.opts(use_push_pop_functions=True), cw.opts(tail_call_optimization=True), cw.opts(inline_functions=True),
            cw.opts(inline_functions=True, tail_call_optimization=True)]
    mat = compile_matrix(progs, vecs)
    items = []
    nent = 0
    for n, s, fam in progs:
        for v in vecs:
            tag = cw.vec_name(v)
            code = code_of(mat[(n, tag)])
            if code is None:
                continue
            pb, fi = annotated(mat[(n, tag)], code, v["use_push_pop_functions"])
            nent += sum(1 for i in pb if i.get("ent"))
            items.append({"name": n, "tag": tag, "case": equiv.make_case(pb, pb, maxn=8), "src": s, "a_text": code, "b_text": code,
                          "sample": sample_of(n, tag, s, code)})
    if nent == 0:
        raise MachineryError("vacuous: no out-of-line function entry in the terminating family")
    rule = ("programs whose top-level code terminates (straight line, break out of a loop) and that call at least one "
            "out-of-line function; monitor: a function entry label must never be reached by falling through from the "
            "previous line; all inputs in the domain")
    ap = all_paths("C07", items)
    return run_equiv_check("C07", tier, t0, items, "model_checking", rule + "; plus IC10Abs.tla: the fall-through monitor on ALL paths of every program",
                           ASSUME_IC10 + ["function entry labels come from hook H1", "IC10Abs.tla over-approximates IC10Core.tla (argued in its header)"],
                           extra_cov=dict(ap, annotated_function_entries=nent), expect_mutant=True,
                           violation_filter=lambda v: v.endswith(("FALLTHROUGH", "ENTERED_WITHOUT_CALL")) or v.startswith(("EFFECT", "EXTRA", "MISSING")))


# ---------------------------------------------------------------------------------------
# C08: compact vs verbose
# ---------------------------------------------------------------------------------------
def generated_names(tier):
    """Every name NameGen.tla reaches (up to 2 atoms; 3 in the thorough tier), as programs of eight names each."""
    d = workdir("C08")
    with open(os.path.join(d, "NameGen.cfg"), "w") as f:
        f.write("SPECIFICATION Spec\nCONSTANT MaxAtoms = %d\nINVARIANT Export\nCHECK_DEADLOCK FALSE\n" % (3 if tier == "thorough" else 2))
    r = run_tlc(os.path.join(SPEC, "NameGen.tla"), os.path.join(d, "NameGen.cfg"), d, workers=8, timeout=900)
    if not r.ok:
        raise MachineryError("NameGen.tla: " + r.out[-3000:])
    names = {}
    for p in r.tagged("NAME"):
        o = json.loads(p[1])
        w = bytes(o["written"]).decode("utf-8")
        h = bytes(o["hashed"]).decode("utf-8")
        if ic10load.signed_crc32(h) != o["value"]:
            raise MachineryError("the loader's CRC-32 and Crc32.tla disagree on %r" % h)
        names[w] = o
    ws = sorted(names)
    progs = []
    for k in range(0, len(ws), 8):
        body = "\n".join("d%d.Setting = HASH(%r)\nActiveVents[%r].On = %d" % (j % 6, w, w, j) for j, w in enumerate(ws[k:k + 8]))
        progs.append(("st_gen_%03d" % (k // 8), corpus._loop(body), "strings"))
    return progs, len(ws), r


def check_c08(tier, t0):
    gen, nnames, rgen = generated_names(tier)
    progs = pick(all_progs(), tier, 30) + [(n, s, "strings") for n, s in strings_family()] + gen
    bases = [cw.REF, cw.opts(inline_functions=True, remove_labels=True)]
    vecs = []
    for b in bases:
        vecs += [b, dict(b, compact=True)]
    mat = compile_matrix(progs, vecs)
    rep = Reporter("C08")
    cases = []
    meta = []
    for n, s, fam in progs:
        for b in bases:
            ka, kb = cw.vec_name(b), cw.vec_name(dict(b, compact=True))
            ca, cb = code_of(mat[(n, ka)]), code_of(mat[(n, kb)])
            if ca is None or cb is None:
                if (ca is None) != (cb is None):
                    rep.violation([n, n + "@" + kb], "COMPILE_DIFFERS", {"property": "C08", "case": n, "source": s},
                                  "case=%s compiles in only one of compact/verbose" % n)
                continue
            hs = []
            for code in (ca, cb):
                for l in code.split("\n"):
                    for t in ic10load.tokenize(l):
                        if t.startswith('HASH("') and t.endswith('")'):
                            bs = list(t[6:-2].encode("utf-8"))
                            hs.append({"bytes": bs, "value": ic10load.signed_crc32(t[6:-2])})
            strip = lambda p: [{"op": i["op"], "a": ["?" if o[0] == "x" else json.dumps(o) for o in i["a"]]} for i in p]
            cases.append({"pa": strip(ic10load.load(ca)), "pb": strip(ic10load.load(cb)), "hashes": hs})
            meta.append({"name": n, "tag": kb, "src": s, "a_text": ca, "b_text": cb})
    mut = copy.deepcopy(cases[0])
    mut["pb"][0]["op"] = "nop" if mut["pb"][0]["op"] != "nop" else "yield"
    d = workdir("C08")
    with open(os.path.join(d, "cases.json"), "w") as f:
        json.dump(cases + [mut], f)
    with open(os.path.join(d, "Compact.cfg"), "w") as f:
        f.write("SPECIFICATION Spec\nCHECK_DEADLOCK FALSE\n")
    r = run_tlc(os.path.join(SPEC, "Compact.tla"), os.path.join(d, "Compact.cfg"), d, workers=8, timeout=900)
    if not r.ok:
        raise MachineryError("Compact.tla run failed:\n" + r.out[-3000:])
    sv = r.verdicts()
    if not any(v != "OK" for v in sv.get(len(cases) + 1, [])):
        raise MachineryError("binding self-test failed: Compact.tla accepted a corrupted artefact")
    nviol = 0
    nhash = 0
    ninc = 0
    for t in range(1, len(cases) + 1):
        nhash += len(cases[t - 1]["hashes"])
        vs = sv.get(t, set())
        if not vs:
            raise MachineryError("no verdict for case %d" % t)
        for v in vs:
            if v == "OK":
                continue
            if v.startswith("INCONCLUSIVE"):
                ninc += 1
                continue
            m = meta[t - 1]
            if rep.violation([m["name"], m["name"] + "@" + m["tag"]], v,
                             {"property": "C08", "case": m["name"], "variant": m["tag"], "verdict": v, "source": m["src"],
                              "verbose": m["a_text"], "compact": m["b_text"]},
                             "case=%s variant=%s verdict=%s" % (m["name"], m["tag"], v)):
                nviol += 1
    cov = {"programs": len(cases), "disagreements_checked": len(cases), "states": r.distinct, "transitions": r.generated,
           "traces_validated_against_impl": len(cases), "hash_tokens_recomputed_in_tlc": nhash, "names_enumerated_by_NameGen": nnames, "namegen_states": rgen.distinct, "inconclusive_unresolved_operand": ninc,
           "samples": [{"case": m["name"], "variant": m["tag"], "verbose": m["a_text"], "compact": m["b_text"]} for m in meta[-2:]],
           "rule": "each program compiled verbose and compact under otherwise equal options; both texts are resolved by the loader "
                   "(HASH = signed CRC-32, STR = big-endian packing, enum names = numbers, $hex) and TLC compares the instruction "
                   "sequences operand for operand and recomputes every HASH token's CRC-32 with spec/Crc32.tla",
           "known_findings_hit": sorted(rep.known)}
    write_evidence("C08", tier, "translation_validation", cov, time.time() - t0, violations=nviol,
                   assumptions=["enum numbering taken from the working tree's types_generated (its consistency is C16)"])
    return rep.finish()


def strings_family():
    out = []
    names = ["a", "Ab", "out", "In", "Main Pump", "x_y-z", "Sensor 12", "ABCDEF"]
    for k, nm in enumerate(names):
        body = f'd0.Setting = HASH("{nm}")\nd1.Setting = d2.PrefabHash == HASH("Structure{nm.replace(" ", "")}")'
        if len(nm) <= 6:
            body += f'\nd3.Setting = STR("{nm}")'
        out.append((f"st_hash_{k}", corpus._loop(body)))
    # enum members in value positions are printed with their class name in verbose mode (Color.Red);
    # bare LogicType/LogicSlotType names in value positions are not used: what the chip does with a
    # bare name there is not documented in the repository, so the loader has no meaning for it
    # HASH inside compile-time constant expressions (folded in verbose mode too), names that begin / end with the
    # characters of the HASH("...") wrapper, non-ASCII names
    for k, nm in enumerate(["Silo", "Ash", "HASH", "Tank (A)", "Station", "Küche", "Wärmetauscher", "泵"]):
        body = f'd0.Setting = (HASH("{nm}") % 256) + 1\nd1.Setting = HASH("{nm}")\nd2.Setting = GrowLights["{nm}"].On.Maximum\nGrowLights["{nm}"].On = HASH("{nm}") > 0'
        out.append((f"st_fold_{k}", corpus._loop(body)))
    out.append(("st_label_like_names", label_like_names_program()))
    # symbolic constants inside compile-time comparisons and arithmetic: the folder sees text in verbose mode, numbers in compact mode
    crc = ic10load.signed_crc32("Furnace")
    out.append(("st_fold_compare", corpus._loop(
        f'if HASH("Furnace") == {crc}:\n    d0.Setting = 1\nelse:\n    d0.Setting = 2\n'
        f'if HASH("Furnace") != {crc}:\n    d1.Setting = 1\nelse:\n    d1.Setting = 2\n'
        f'if {crc} == HASH("Furnace"):\n    d2.Setting = 1\n'
        f'd3.Setting = (HASH("Furnace") == HASH("Furnace")) + (HASH("Furnace") != {crc + 1})\n'
        'd4.Setting = STR("Hi") + 1\nd5.Setting = -STR("Hi")\nxa = STR("AB")\ndb.Setting = xa * 2 + (STR("Hi") == 18537)')))
    out.append(("st_enum", corpus._loop("d2.Setting = Color.Red + Color.Green\nd1.Setting = d0.Mode + LogicBatchMethod.Maximum")))
    return out


# ---------------------------------------------------------------------------------------
# C13: library modules vs merged single file
# ---------------------------------------------------------------------------------------
def modules_family():
    out = []
    H = corpus.HEADER
    lib_a = H + "count = 1\ndef bump(xa):\n    global count\n    count = count + xa\n    return count\ndef unused(xa):\n    d5.Setting = xa\n    return 1\nif __name__ == \"__main__\":\n    d4.Setting = 99\n"
    lib_b = H + "count = 10\ndef bump(xa):\n    global count\n    count = count * 2 + xa\n    return count\n"
    main1 = H + "from library import ma\nwhile True:\n    d1.Setting = ma.bump(d0.Setting)\n    yield_()\n"
    merged1 = H + "ma_count = 1\ndef ma_bump(xa):\n    global ma_count\n    ma_count = ma_count + xa\n    return ma_count\nwhile True:\n    d1.Setting = ma_bump(d0.Setting)\n    yield_()\n"
    out.append(("md_one", {"": main1, "ma": lib_a}, merged1))
    main2 = H + "from library import ma\nfrom library import mb\ncount = 100\nwhile True:\n    count = count + 1\n    d1.Setting = ma.bump(d0.Setting)\n    d2.Setting = mb.bump(d0.Setting)\n    d3.Setting = count\n    yield_()\n"
    merged2 = (H + "ma_count = 1\nmb_count = 10\ncount = 100\ndef ma_bump(xa):\n    global ma_count\n    ma_count = ma_count + xa\n    return ma_count\n"
               "def mb_bump(xa):\n    global mb_count\n    mb_count = mb_count * 2 + xa\n    return mb_count\n"
               "while True:\n    count = count + 1\n    d1.Setting = ma_bump(d0.Setting)\n    d2.Setting = mb_bump(d0.Setting)\n    d3.Setting = count\n    yield_()\n")
    out.append(("md_collide", {"": main2, "ma": lib_a, "mb": lib_b}, merged2))
    main3 = H + "from library import ma as lib\nwhile True:\n    d1.Setting = lib.bump(d0.Setting) + lib.bump(1)\n    yield_()\n"
    merged3 = H + "ma_count = 1\ndef ma_bump(xa):\n    global ma_count\n    ma_count = ma_count + xa\n    return ma_count\nwhile True:\n    d1.Setting = ma_bump(d0.Setting) + ma_bump(1)\n    yield_()\n"
    out.append(("md_alias", {"": main3, "ma": lib_a}, merged3))
    # early returns inside library functions, a main-file function of the same name with an early return of its own
    lib_c = H + "def update(xa):\n    if xa > 1:\n        return xa * 2\n    d3.Setting = xa\n    return xa + 1\n"
    main4 = (H + "from library import ctl\ndef update(xa):\n    if xa < 0:\n        return 0 - xa\n    d2.Setting = xa\n    return xa + 7\n"
             "while True:\n    d1.Setting = ctl.update(d0.Setting) + ctl.update(1)\n    db.Setting = update(d0.Setting) + update(2)\n    yield_()\n")
    merged4 = (H + "def ctl_update(xa):\n    if xa > 1:\n        return xa * 2\n    d3.Setting = xa\n    return xa + 1\n"
               "def update(xa):\n    if xa < 0:\n        return 0 - xa\n    d2.Setting = xa\n    return xa + 7\n"
               "while True:\n    d1.Setting = ctl_update(d0.Setting) + ctl_update(1)\n    db.Setting = update(d0.Setting) + update(2)\n    yield_()\n")
    out.append(("md_early", {"": main4, "ctl": lib_c}, merged4))
    # two libraries: a register-held mutable global of one must survive a call into the other (whose locals need registers)
    lib_x = H + "level = 1\ndef raise_level(xa):\n    global level\n    level = level + xa\n    return level\n"
    lib_y = H + "def mix(xa, xb):\n    ta = xa * 3 + 1\n    tb = xb * 5 + 2\n    tc = ta * tb - xa\n    d3.Setting = tc\n    return tc + ta + tb\n"
    main6 = (H + "from library import mx\nfrom library import my\nwhile True:\n    va = mx.raise_level(d0.Setting)\n    vb = my.mix(va, d1.Setting)\n"
             "    vc = my.mix(2, va)\n    d2.Setting = mx.raise_level(1) + vb + vc\n    yield_()\n")
    merged6 = (H + "mx_level = 1\ndef mx_raise_level(xa):\n    global mx_level\n    mx_level = mx_level + xa\n    return mx_level\n"
               "def my_mix(xa, xb):\n    ta = xa * 3 + 1\n    tb = xb * 5 + 2\n    tc = ta * tb - xa\n    d3.Setting = tc\n    return tc + ta + tb\n"
               "while True:\n    va = mx_raise_level(d0.Setting)\n    vb = my_mix(va, d1.Setting)\n    vc = my_mix(2, va)\n    d2.Setting = mx_raise_level(1) + vb + vc\n    yield_()\n")
    out.append(("md_two_libs_pressure", {"": main6, "mx": lib_x, "my": lib_y}, merged6))
    # equal names for device variables in the main file and in a library
    lib_s = H + "sensor = DaylightSensor(d1)\nlamp = WallLight(d3)\ndef angle():\n    lamp.On = sensor.Vertical > 1\n    return sensor.Horizontal\n"
    main7 = H + "from library import sun\nsensor = DaylightSensor(d0)\nlamp = WallLight(d2)\nwhile True:\n    lamp.On = sensor.Vertical > 0\n    d4.Setting = sun.angle() + sensor.Horizontal\n    d5.Setting = sun.angle()\n    yield_()\n"
    merged7 = (H + "sun_sensor = DaylightSensor(d1)\nsun_lamp = WallLight(d3)\nsensor = DaylightSensor(d0)\nlamp = WallLight(d2)\n"
               "def sun_angle():\n    sun_lamp.On = sun_sensor.Vertical > 1\n    return sun_sensor.Horizontal\n"
               "while True:\n    lamp.On = sensor.Vertical > 0\n    d4.Setting = sun_angle() + sensor.Horizontal\n    d5.Setting = sun_angle()\n    yield_()\n")
    out.append(("md_device_names", {"": main7, "sun": lib_s}, merged7))
    # two register-held globals of ONE library whose uses lie in disjoint line ranges
    lib_g = H + "xs = 0\ndef fx(xa):\n    global xs\n    xs = xs + xa\n    return xs\nys = 10\ndef fy(xa):\n    global ys\n    ys = ys + xa * 2\n    return ys\n"
    main8 = H + "from library import mg\nwhile True:\n    d1.Setting = mg.fx(d0.Setting)\n    d2.Setting = mg.fy(1)\n    d3.Setting = mg.fx(1) + mg.fy(d0.Setting)\n    yield_()\n"
    merged8 = (H + "mg_xs = 0\ndef mg_fx(xa):\n    global mg_xs\n    mg_xs = mg_xs + xa\n    return mg_xs\nmg_ys = 10\ndef mg_fy(xa):\n    global mg_ys\n    mg_ys = mg_ys + xa * 2\n    return mg_ys\n"
               "while True:\n    d1.Setting = mg_fx(d0.Setting)\n    d2.Setting = mg_fy(1)\n    d3.Setting = mg_fx(1) + mg_fy(d0.Setting)\n    yield_()\n")
    out.append(("md_two_globals_one_lib", {"": main8, "mg": lib_g}, merged8))
    # a library function that itself calls another library function (return address saved), all calling conventions
    lib_n = H + "def inner(xa):\n    d3.Setting = xa\n    return xa + 1\ndef outer(xa):\n    ta = inner(xa)\n    return inner(ta) * 2\n"
    main9 = H + "from library import mn\nwhile True:\n    d1.Setting = mn.outer(d0.Setting) + mn.outer(1)\n    yield_()\n"
    merged9 = (H + "def mn_inner(xa):\n    d3.Setting = xa\n    return xa + 1\ndef mn_outer(xa):\n    ta = mn_inner(xa)\n    return mn_inner(ta) * 2\n"
               "while True:\n    d1.Setting = mn_outer(d0.Setting) + mn_outer(1)\n    yield_()\n")
    out.append(("md_nested_calls_in_lib", {"": main9, "mn": lib_n}, merged9))
    # an early return in a library function: alone, and next to a main-file function of the same name that itself calls (its
    # epilogue restores ra: a jump that lands there instead of on the library function's own end label goes wrong)
    lib_e = H + "def clamp(xa):\n    if xa > 2:\n        return 2\n    if xa < 0:\n        return 0\n    d3.Setting = xa\n    return xa\n"
    main10 = H + "from library import lim\nwhile True:\n    d1.Setting = lim.clamp(d0.Setting) + lim.clamp(1)\n    yield_()\n"
    merged10 = H + "def lim_clamp(xa):\n    if xa > 2:\n        return 2\n    if xa < 0:\n        return 0\n    d3.Setting = xa\n    return xa\nwhile True:\n    d1.Setting = lim_clamp(d0.Setting) + lim_clamp(1)\n    yield_()\n"
    out.append(("md_early_only_lib", {"": main10, "lim": lib_e}, merged10))
    main11 = (H + "from library import lim\ndef helper(xa):\n    d4.Setting = xa\n    return xa + 1\ndef clamp(xa):\n    if xa > 5:\n        return helper(5)\n    ta = helper(xa)\n    return ta + helper(1)\n"
              "while True:\n    d1.Setting = lim.clamp(d0.Setting) + lim.clamp(1)\n    d2.Setting = clamp(d0.Setting) + clamp(7)\n    yield_()\n")
    merged11 = (H + "def lim_clamp(xa):\n    if xa > 2:\n        return 2\n    if xa < 0:\n        return 0\n    d3.Setting = xa\n    return xa\n"
                "def helper(xa):\n    d4.Setting = xa\n    return xa + 1\ndef clamp(xa):\n    if xa > 5:\n        return helper(5)\n    ta = helper(xa)\n    return ta + helper(1)\n"
                "while True:\n    d1.Setting = lim_clamp(d0.Setting) + lim_clamp(1)\n    d2.Setting = clamp(d0.Setting) + clamp(7)\n    yield_()\n")
    out.append(("md_early_same_name_calling", {"": main11, "lim": lib_e}, merged11))
    # a library's self-test block assigns its globals: dead when imported, it must not influence what the live code sees
    lib_t = (H + "target = 50\nstep = 3\ndef aim(xa):\n    return xa + target * step\nif __name__ == \"__main__\":\n    target = 20\n    step = 1\n    d5.Setting = aim(1)\n")
    main12 = H + "from library import tg\nwhile True:\n    d1.Setting = tg.aim(d0.Setting) + tg.aim(2)\n    yield_()\n"
    merged12 = H + "tg_target = 50\ntg_step = 3\ndef tg_aim(xa):\n    return xa + tg_target * tg_step\nwhile True:\n    d1.Setting = tg_aim(d0.Setting) + tg_aim(2)\n    yield_()\n"
    out.append(("md_selftest_assigns_globals", {"": main12, "tg": lib_t}, merged12))
    lib_u = (H + "target = 50\ngain = 2\ndef update(xa):\n    db.Setting = (target - xa) * gain\nif __name__ == \"__main__\":\n    target = 20\n    gain = 3\n"
             "    while True:\n        update(1)\n        yield_()\n")
    main13 = H + "from library import ctl as cz\nna = 0\nwhile True:\n    yield_()\n    na = na + 1\n    cz.update(na)\n    cz.update(na + 10)\n"
    merged13 = H + "ctl_target = 50\nctl_gain = 2\ndef ctl_update(xa):\n    db.Setting = (ctl_target - xa) * ctl_gain\nna = 0\nwhile True:\n    yield_()\n    na = na + 1\n    ctl_update(na)\n    ctl_update(na + 10)\n"
    out.append(("md_selftest_loop", {"": main13, "ctl": lib_u}, merged13))
    # a library much longer than the main file (the comment options look source lines up by number)
    lib_l = H + "def fa(xa):\n    d1.Setting = xa\n    d2.Setting = xa + 1\n    d3.Setting = xa + 2\n    d1.Setting = xa + 3\n    d2.Setting = xa + 4\n    return xa + 1\n"
    main14 = H + "from library import ll\nd0.Setting = ll.fa(d0.Setting) + ll.fa(2)\n"
    merged14 = H + "def ll_fa(xa):\n    d1.Setting = xa\n    d2.Setting = xa + 1\n    d3.Setting = xa + 2\n    d1.Setting = xa + 3\n    d2.Setting = xa + 4\n    return xa + 1\nd0.Setting = ll_fa(d0.Setting) + ll_fa(2)\n"
    out.append(("md_long_library", {"": main14, "ll": lib_l}, merged14))
    # two libraries that both name a device object `sensor` and ask for an IC10 alias of that name
    lib_p = H + "sensor = GasSensor(d0, alias=True)\ndef temp():\n    return sensor.Temperature\n"
    lib_q = H + "sensor = GasSensor(d1, alias=True)\ndef pres():\n    return sensor.Pressure\n"
    main15 = H + "from library import lp\nfrom library import lq\nwhile True:\n    d2.Setting = lp.temp() + lq.pres()\n    d3.Setting = lp.temp()\n    yield_()\n"
    merged15 = (H + "lp_sensor = GasSensor(d0, alias=True)\nlq_sensor = GasSensor(d1, alias=True)\ndef lp_temp():\n    return lp_sensor.Temperature\ndef lq_pres():\n    return lq_sensor.Pressure\n"
                "while True:\n    d2.Setting = lp_temp() + lq_pres()\n    d3.Setting = lp_temp()\n    yield_()\n")
    out.append(("md_alias_collision", {"": main15, "lp": lib_p, "lq": lib_q}, merged15))
    # module-level statements of two libraries imported in non-alphabetical order: they run in import order
    lib_z = H + "d1.Setting = 1\nd2.Setting = d0.Setting\ndef zed(xa):\n    return xa + 1\n"
    lib_a2 = H + "d1.Setting = 2\nd2.Setting = 7\ndef aye(xa):\n    return xa * 2\n"
    main16 = H + "from library import zz\nfrom library import aa\nwhile True:\n    d3.Setting = zz.zed(d0.Setting) + aa.aye(1)\n    yield_()\n"
    merged16 = (H + "d1.Setting = 1\nd2.Setting = d0.Setting\ndef zz_zed(xa):\n    return xa + 1\nd1.Setting = 2\nd2.Setting = 7\ndef aa_aye(xa):\n    return xa * 2\n"
                "while True:\n    d3.Setting = zz_zed(d0.Setting) + aa_aye(1)\n    yield_()\n")
    out.append(("md_import_order", {"": main16, "zz": lib_z, "aa": lib_a2}, merged16))
    return out


def check_c13(tier, t0):
    import proggen
    fam = modules_family()
    # splits generated from the grammar: every drawn program that calls one of its functions, with the functions moved to a library
    gen, _ = proggen.generate("C13_gen", 400 if tier == "thorough" else 60, seed() + 13, max_lines=7, max_depth=2, nfuncs=2)
    ngen = 0
    for n, src, p in gen:
        if p["fns"] and any(l["kind"] == "call" for l in p["lines"]):
            split, merged = proggen.render_split(p)
            fam.append((n.replace("pg_", "mdg_"), split, merged))
            ngen += 1
            if ngen >= (150 if tier == "thorough" else 14):
                break
    vecs = [cw.REF, cw.opts(inline_functions=True), cw.opts(use_push_pop_functions=True, compact=True)]
    if tier == "thorough":
        vecs = [cw.REF] + semantic_vectors("quick")
    jobs = []
    meta = []
    for n, split, merged in fam:
        for v in vecs:
            jobs.append({"src": split, "options": v})
            jobs.append({"src": merged, "options": v})
            meta.append((n, split, merged, v))
    res = cw.compile_many(jobs)
    rep = Reporter("C13")
    # the comment options must not matter for a several-file program either: it compiles, and to the same instructions
    cvec = cw.opts(original_code_as_comment=True, generated_comments=True)
    cfam = [(n, split) for n, split, merged in fam if n.startswith("md_")]
    cres = cw.compile_many([{"src": split, "options": v} for n, split in cfam for v in (cw.REF, cvec)])
    # instructions only: an unused label survives when a comment follows it on its line (harmless, and C05's business)
    strip_comments = lambda code: [t for t in (ic10load.tokenize(l) for l in code.split("\n")) if t and not (len(t) == 1 and t[0].endswith(":"))]
    for k, (n, split) in enumerate(cfam):
        ca, cb = code_of(cres[2 * k]), code_of(cres[2 * k + 1])
        if ca is not None and cb is None:
            rep.violation([n, n + "@ov"], "SPLIT_DOES_NOT_COMPILE", {"property": "C13", "case": n, "variant": "ov", "modules": split, "result": cres[2 * k + 1]["result"]},
                          "case=%s variant=ov (comment options) split program rejected: %s" % (n, str((cres[2 * k + 1]["result"] or {}).get("error", {}).get("description"))[:120]))
        elif ca is not None and strip_comments(ca) != strip_comments(cb):
            rep.violation([n, n + "@ov"], "COMMENT_OPTIONS_CHANGE_INSTRUCTIONS", {"property": "C13", "case": n, "modules": split, "plain": ca, "commented": cb},
                          "case=%s the comment options change the instructions of a several-file program" % n)
    items = []
    for k, (n, split, merged, v) in enumerate(meta):
        rs, rm = res[2 * k], res[2 * k + 1]
        tag = cw.vec_name(v)
        cs, cm = code_of(rs), code_of(rm)
        if cm is None:
            raise MachineryError("merged twin of %s does not compile: %s" % (n, rm["result"]))
        if cs is None:
            rep.violation([n, n + "@" + tag], "SPLIT_DOES_NOT_COMPILE",
                          {"property": "C13", "case": n, "variant": tag, "modules": split, "result": rs["result"], "raised": rs["raised"]},
                          "case=%s variant=%s split program rejected: %s" % (n, tag, str((rs["result"] or {}).get("error", {}).get("description", rs["raised"]))[:120]))
            continue
        # never-called library functions / __main__ blocks contribute no instructions
        alltext = "\n".join(split.values())
        for marker, stmt, what in (("d5", "d5.Setting = xa", "UNUSED_LIBRARY_FUNCTION_EMITTED"), ("d4", "d4.Setting = 99", "LIBRARY_MAIN_BLOCK_EMITTED")):
            # the marker device is written only by the uncalled library function / the library's __main__ block of this case
            if n.startswith("md_") and stmt in alltext and alltext.count(marker + ".") == 1 and re.search(r"\b%s\b" % marker, cs):
                rep.violation([n, n + "@" + tag], what, {"property": "C13", "case": n, "variant": tag, "modules": split, "code": cs},
                              "case=%s variant=%s %s" % (n, tag, what))
        items.append({"name": n, "tag": tag, "case": equiv.make_case(ic10load.load(cm), ic10load.load(cs)), "src": split,
                      "a_text": cm, "b_text": cs, "sample": {"case": n, "variant": tag, "modules": split, "merged": merged, "emitted": cs}})
    rule = ("programs split over main file + 1..2 library modules (colliding global and function names, alias import, "
            "__main__ block, uncalled library function) vs the hand-merged single-file twin with module-prefixed names, "
            "same option vector; both emitted texts run as IC10 machines over all inputs")
    rc2 = 0
    if items:
        rc = run_equiv_check("C13", tier, t0, items, "translation_validation", rule, ASSUME_IC10,
                             extra_cov={"programs": len(items), "disagreements_checked": len(items)}, outer=rep)
    else:
        write_evidence("C13", tier, "translation_validation", {"evaluations": len(meta), "distinct_nontrivial": 0, "rule": rule,
                                                               "samples": [fam[0][1]]}, time.time() - t0, violations=len(rep.violations))
        rc = 0
    rc2 = rep.finish()
    return 1 if (rc or rc2) else 0


CHECKS = {"C02": check_c02, "C04": check_c04, "C05": check_c05, "C06": check_c06, "C07": check_c07, "C08": check_c08,
          "C13": check_c13}
