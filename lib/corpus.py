"""Program families (DESIGN 6.1).  Every member is a small program of the supported dialect;
families are deterministic grids so that a run is reproducible; the quick tier takes a
seeded slice that keeps every shape class (slice()).

Identifiers avoid the names exported by stationeers_pytrapic.symbols (j, l, s, ...).
Main code always ends in an endless yielding loop (the normal shape of a chip program)
except in family `term` (C07), whose members terminate on purpose.
"""
import itertools
import random

HEADER = "from stationeers_pytrapic.symbols import *\n"

CMPS = ["<", "<=", ">", ">=", "==", "!="]


def _loop(body, pre=""):
    b = "\n".join("    " + x for x in body.strip("\n").split("\n"))
    return HEADER + pre + "while True:\n" + b + "\n    yield_()\n"


def fam_branches():
    out = []
    # named constants with a sign in folded arithmetic (remainder, division, comparison) next to the same values at run time
    out.append(("br_negative_constants_folded", _loop("ka = -7\nkb = 3\nva = d0.Setting\nd1.Setting = ka % kb + va\nd2.Setting = (ka % kb) * 10 + (7 % kb)\nif ka % kb > 1:\n    d3.Setting = ka / 2 + va % kb\n")))
    for k, op in enumerate(CMPS):
        c = (k % 3)
        out.append((f"br_if_{k}", _loop(f"va = d0.Setting\nif va {op} {c}:\n    d1.Setting = va + 1\nd1.On = 1")))
        out.append((f"br_ifnot_{k}", _loop(f"va = d0.Setting\nif not va {op} {c}:\n    d1.Setting = 5\nd1.On = va")))
        out.append((f"br_ifelse_{k}", _loop(f"va = d0.Setting\nvb = d1.Setting\nif va {op} vb:\n    d2.Setting = va - vb\nelse:\n    d2.Setting = vb * 2")))
        out.append((f"br_elif_{k}", _loop(f"va = d0.Setting\nif va {op} 0:\n    d1.Setting = 10\nelif va {op} 1:\n    d1.Setting = 20\nelse:\n    d1.Setting = 30")))
        out.append((f"br_while_{k}", _loop(f"va = d0.Setting\ncnt = 0\nwhile cnt {op} va:\n    cnt = cnt + 1\n    if cnt > 2:\n        break\nd1.Setting = cnt")))
        out.append((f"br_val_{k}", _loop(f"va = d0.Setting\nvb = va {op} {c}\nd1.Setting = vb + 2")))
        out.append((f"br_ifexp_{k}", _loop(f"va = d0.Setting\nd1.Setting = 7 if va {op} {c} else va")))
        out.append((f"br_nested_{k}", _loop(f"va = d0.Setting\nvb = d1.Setting\nif va {op} 1:\n    if vb {op} 0:\n        d2.Setting = 1\n    else:\n        d2.Setting = 2\nelse:\n    d2.Setting = 3")))
    rem = "  # a long trailing remark, long enough that no emitted line has room left for the version note at its end"
    out.append(("br_long_remarks", HEADER + "while True:" + rem + "\n    va = d0.Setting" + rem + "\n    if va > 1:" + rem + "\n        d1.Setting = va + 1" + rem
                + "\n    else:" + rem + "\n        d1.Setting = va - 1" + rem + "\n    d2.On = va" + rem + "\n    yield_()" + rem + "\n"))
    out.append(("br_name_test", _loop("va = d0.Setting\nif va:\n    d1.On = 1\nelse:\n    d1.On = 0")))
    out.append(("br_attr_test", _loop("if d0.On:\n    d1.On = 1\nelse:\n    d1.On = 0")))
    out.append(("br_and", _loop("va = d0.Setting\nvb = d1.Setting\nif va > 0 and vb > 0:\n    d2.On = 1\nelse:\n    d2.On = 0")))
    out.append(("br_or", _loop("va = d0.Setting\nvb = d1.Setting\nif va > 0 or vb > 0:\n    d2.On = 1\nelse:\n    d2.On = 0")))
    return out


def fam_loops():
    out = []
    rng = [("r1", "range(3)"), ("r2", "range(1, 4)"), ("r3", "range(0, 6, 2)"), ("rneg", "range(4, 0, -1)"),
           ("rvar", "range(vn)"), ("rvar2", "range(1, vn + 1)")]
    for nm, r in rng:
        out.append((f"lp_sum_{nm}", _loop(f"vn = d0.Setting\nacc = 0\nfor idx in {r}:\n    acc = acc + idx\nd1.Setting = acc")))
        out.append((f"lp_eff_{nm}", _loop(f"vn = d0.Setting\nfor idx in {r}:\n    d1.Setting = idx * 2\nd1.On = vn")))
        out.append((f"lp_break_{nm}", _loop(f"vn = d0.Setting\nacc = 0\nfor idx in {r}:\n    if idx == 2:\n        break\n    acc = acc + 1\nd1.Setting = acc")))
    out.append(("lp_named_neg_step", HEADER + "stp = -2\nwhile True:\n    vn = d0.Setting\n    acc = 0\n    for idx in range(5, vn, stp):\n        acc = acc + idx\n        d1.Setting = idx\n    d2.Setting = acc\n    yield_()\n"))
    out.append(("lp_named_pos_step", HEADER + "stp = 2\nlim = 5\nwhile True:\n    vn = d0.Setting\n    for idx in range(vn, lim, stp):\n        d1.Setting = idx\n    yield_()\n"))
    out.append(("lp_boundexpr_main", _loop("vn = d0.Setting\nacc = 0\nfor idx in range(vn * 2 + 1):\n    acc += (idx + 1) * (idx + 2)\nd1.Setting = acc")))
    out.append(("lp_stmt_before_break", _loop("cnt = 0\nwhile cnt < 6:\n    cnt = cnt + 1\n    if cnt > d0.Setting:\n        d2.Setting = cnt\n        break\n    d1.Setting = cnt\nd3.Setting = cnt")))
    out.append(("lp_break_in_nested_if", _loop("cnt = 0\nwhile cnt < 4:\n    cnt = cnt + 1\n    if cnt > d0.Setting:\n        d2.Setting = cnt\n        if cnt > 2:\n            d3.On = 1\n            break\n    d1.Setting = cnt\nd3.Setting = cnt")))
    out.append(("lp_for_stmt_before_break", _loop("for idx in range(4):\n    if idx > d0.Setting:\n        d2.Setting = idx\n        break\n    d1.Setting = idx\nd3.On = 1")))
    out.append(("lp_nested", _loop("acc = 0\nfor ia in range(2):\n    for ib in range(3):\n        acc = acc + ia * ib\nd0.Setting = acc")))
    out.append(("lp_nested_dev", _loop("vn = d0.Setting\nacc = 0\nfor ia in range(2):\n    for ib in range(2):\n        acc = acc + vn + ia\nd1.Setting = acc")))
    out.append(("lp_while_break", _loop("cnt = 0\nwhile True:\n    cnt = cnt + 1\n    if cnt > d0.Setting:\n        break\n    if cnt > 3:\n        break\nd1.Setting = cnt")))
    out.append(("lp_while_continue", _loop("cnt = 0\nacc = 0\nwhile cnt < 4:\n    cnt = cnt + 1\n    if cnt == d0.Setting:\n        continue\n    acc = acc + cnt\nd1.Setting = acc")))
    out.append(("lp_list", _loop("acc = 0\nfor val in [3, 5, 9]:\n    acc = acc + val\n    d0.Setting = acc")))
    out.append(("lp_list_index", _loop("vals = [4, 8, 15, 16]\nvi = d0.Setting\nif vi >= 0 and vi < 4:\n    d1.Setting = vals[vi]\nelse:\n    d1.Setting = 0 - 1")))
    # `continue` of an outer loop placed after another loop has been compiled (an inner loop / a called function with a loop)
    out.append(("lp_continue_after_inner_loop", _loop("ia = 0\nwhile ia < 3:\n    ia = ia + 1\n    for ib in range(2):\n        d1.Setting = ib + ia\n    if d0.Setting > ia:\n        continue\n    d2.Setting = ia")))
    out.append(("lp_continue_after_call_with_loop", HEADER + "def sweep(xa):\n    for ib in range(2):\n        d1.Setting = ib + xa\n    return xa + 1\nwhile True:\n    ia = 0\n    while ia < 3:\n        ia = sweep(ia)\n"
                "        if d0.Setting > ia:\n            continue\n        d2.Setting = sweep(ia)\n    yield_()\n"))
    out.append(("lp_siblings", _loop("vn = d0.Setting\nacc = 0\nfor ia in range(2):\n    for ib in range(2):\n        tx = ib + vn\n        acc = acc + tx\n    for ic in range(2):\n        ty = ic * 2\n        acc = acc + ty + ia\nd1.Setting = acc")))
    out.append(("lp_alias_copy", _loop("va = d0.Setting\nvb = va\nvc = d1.Setting + 1\nvd = vc * 2\nd2.Setting = vb + vd")))
    out.append(("lp_carried", _loop("acc = d0.Setting\nprev = 1\nfor idx in range(3):\n    nxt = acc + prev\n    prev = acc\n    acc = nxt\nd1.Setting = acc + prev")))
    return out


def fam_functions():
    out = []
    out.append(("fn_ret2", HEADER + "def fa(xa, xb):\n    if xa > xb:\n        return xa - xb\n    return xb + xa\nwhile True:\n    d0.Setting = fa(d0.Setting, d1.Setting)\n    yield_()\n"))
    out.append(("fn_noarg", HEADER + "def fa():\n    d1.Setting = d0.Setting + 1\nwhile True:\n    fa()\n    yield_()\n"))
    # a parameter that the function reassigns: the caller's variable passed for it must keep its value (also when inlined)
    out.append(("fn_param_reassigned_once", HEADER + "def countdown(xn):\n    xn -= 1\n    d1.Setting = xn\n    return xn * 2\nwhile True:\n    va = d0.Setting\n    vb = countdown(va)\n    d2.Setting = va + vb\n    yield_()\n"))
    out.append(("fn_param_changed_called_twice", HEADER + "def countdown(xn):\n    xn = xn - 1\n    d1.Setting = xn\n    return xn * 2\nwhile True:\n    va = d0.Setting\n    vb = countdown(va)\n    vc = countdown(vb)\n    d2.Setting = va + vb + vc\n    yield_()\n"))
    # a helper called once (inlined) whose name ends with the name of the function it is inlined into; that function is called
    # twice and makes a real call, so it saves ra; the helper has an early return (its end label travels into the caller's body)
    out.append(("fn_suffix_named_helper_inlined", HEADER + "def bump(xa):\n    d1.Setting = xa\n    return xa + 1\ndef pre_step(xa):\n    if xa > 5:\n        return xa - 5\n    return xa + 2\n"
                "def step(xa):\n    ta = pre_step(xa)\n    return bump(ta)\nwhile True:\n    d2.Setting = step(d0.Setting) + step(9)\n    d3.Setting = bump(10)\n    yield_()\n"))
    out.append(("fn_chain", HEADER + "def fa(xa):\n    return xa + 1\ndef fb(xa):\n    return fa(xa) * 2\ndef fc(xa):\n    return fb(xa) - fa(xa)\nwhile True:\n    d1.Setting = fc(d0.Setting)\n    yield_()\n"))
    out.append(("fn_twice", HEADER + "def fa(xa, xb):\n    return xa * 2 + xb\nwhile True:\n    va = fa(d0.Setting, 1)\n    vb = fa(va, d1.Setting)\n    d2.Setting = va + vb\n    yield_()\n"))
    out.append(("fn_live_across", HEADER + "def fa(xa):\n    tmp = xa * 3\n    return tmp + 1\nwhile True:\n    va = d0.Setting\n    vb = d1.Setting\n    vc = fa(va)\n    d2.Setting = va + vb + vc\n    yield_()\n"))
    out.append(("fn_early_loop", HEADER + "def fa(xa):\n    for idx in range(4):\n        if idx == xa:\n            return idx + 10\n    return 0\nwhile True:\n    d1.Setting = fa(d0.Setting)\n    yield_()\n"))
    out.append(("fn_arg_call", HEADER + "def fa(xa):\n    return xa + 1\ndef fb(xa, xb):\n    return xa - xb\nwhile True:\n    d1.Setting = fb(fa(d0.Setting), fa(2))\n    yield_()\n"))
    out.append(("fn_cond_call", HEADER + "def fa(xa):\n    return xa > 0\nwhile True:\n    vt = fa(d0.Setting)\n    if vt:\n        d1.On = 1\n    else:\n        d1.On = 0\n    yield_()\n"))
    out.append(("fn_global", HEADER + "total = 0\ndef fa(xa):\n    global total\n    total = total + xa\nwhile True:\n    fa(d0.Setting)\n    d1.Setting = total\n    yield_()\n"))
    out.append(("fn_three_args", HEADER + "def fa(xa, xb, xc):\n    return xa * 100 + xb * 10 + xc\nwhile True:\n    d1.Setting = fa(1, d0.Setting, 3)\n    yield_()\n"))
    out.append(("fn_tail", HEADER + "def fa(xa):\n    return xa + 5\ndef fb(xa):\n    return fa(xa * 2)\nwhile True:\n    d1.Setting = fb(d0.Setting)\n    yield_()\n"))
    out.append(("fn_void_early", HEADER + "def fa(xa):\n    if xa < 0:\n        return\n    d1.Setting = xa\nwhile True:\n    fa(d0.Setting)\n    d1.On = 1\n    yield_()\n"))
    out.append(("fn_nested_effects", HEADER + "def fa(xa):\n    d1.Setting = xa\n    return xa + 1\ndef fb(xa):\n    vt = fa(xa)\n    d2.Setting = vt\n    return vt + fa(vt)\nwhile True:\n    d3.Setting = fb(d0.Setting)\n    yield_()\n"))
    out.append(("fn_diamond", HEADER + "def fbase(xa):\n    return xa + 1\ndef fleft(xa):\n    return fbase(xa) * 2\ndef fright(xa):\n    return fbase(xa) * 3\nwhile True:\n    d1.Setting = fleft(d0.Setting) + fright(d0.Setting)\n    yield_()\n"))
    out.append(("fn_unused_param", HEADER + "def fa(xa, xb, xc):\n    return xa * 10 + xc\ndef fb(xa):\n    return fa(xa, 7, 3) + fa(2, xa, xa)\nwhile True:\n    d1.Setting = fb(d0.Setting) + fa(1, 2, d0.Setting)\n    yield_()\n"))
    out.append(("fn_early_inner", HEADER + "def fa(xa):\n    return xa + 1\ndef fb(xa):\n    vt = fa(xa)\n    if vt > 1:\n        return vt\n    d2.Setting = vt\n    return fa(vt) * 2\nwhile True:\n    d1.Setting = fb(d0.Setting)\n    d3.Setting = fb(1)\n    yield_()\n"))
    out.append(("fn_early_void_inner", HEADER + "def fa(xa):\n    d1.Setting = xa\ndef fb(xa):\n    if xa < 1:\n        return\n    fa(xa)\n    if xa > 1:\n        return\n    fa(xa + 5)\nwhile True:\n    fb(d0.Setting)\n    fb(d2.Setting)\n    yield_()\n"))
    out.append(("fn_global_late", HEADER + "def fa(xa):\n    global total\n    total = total + xa\ndef fb(xa):\n    global total\n    total = total * 2 + xa\ntotal = 100\nwhile True:\n    fa(d0.Setting)\n    vt = d1.Setting * 3 + 1\n    vu = vt * 2\n    fb(vu)\n    d2.Setting = total + vt\n    yield_()\n"))
    out.append(("fn_global_hidden", HEADER + "def bump():\n    global total\n    total = total + 1\ndef report():\n    d1.Setting = total\ntotal = 100\nwhile True:\n    va = d0.Setting * 2 + 1\n    vb = va * va + 3\n    bump()\n    bump()\n    d2.Setting = vb + va\n    report()\n    yield_()\n"))
    out.append(("fn_nested_bound", HEADER + "def area(wa, ha):\n    acc = 0\n    for ia in range(wa):\n        for ib in range(ha):\n            acc = acc + ia + 1\n    return acc\nwhile True:\n    d1.Setting = area(d0.Setting, 2) + area(2, d0.Setting)\n    yield_()\n"))
    out.append(("fn_return_in_trailing_loop", HEADER + "def fa(xa):\n    kk = 0\n    while kk < 3:\n        kk = kk + 1\n        d1.Setting = kk\n        if kk >= xa:\n            return\ndef fb(xa):\n    for idx in range(3):\n        d2.Setting = idx\n        if idx == xa:\n            return\nwhile True:\n    fa(d0.Setting)\n    fa(2)\n    fb(d0.Setting)\n    fb(1)\n    d3.On = 1\n    yield_()\n"))
    out.append(("fn_nested_call_later_arg", HEADER + "def scale(xa):\n    return xa * 2\ndef show(xa, xb):\n    d1.Setting = xa\n    d2.Setting = xb\n    return xa + xb\nwhile True:\n    vn = d0.Setting\n    d3.Setting = show(vn, scale(vn + 10)) + show(scale(1), vn)\n    yield_()\n"))
    out.append(("fn_branch_and_link", HEADER + "def alarm():\n    d1.On = 1\ndef check(level):\n    bgtal(level, 1, \"alarm\")\n    d2.Setting = level\nwhile True:\n    check(d0.Setting)\n    check(2)\n    alarm()\n    alarm()\n    yield_()\n"))
    out.append(("fn_tail_to_once_called", HEADER + "def leaf(xa):\n    d1.Setting = xa\ndef outer(xa):\n    d2.Setting = xa\n    leaf(xa + 1)\nwhile True:\n    outer(d0.Setting)\n    outer(2)\n    d3.On = 1\n    yield_()\n"))
    out.append(("fn_once_called_tail", HEADER + "def gg(xa):\n    d1.Setting = xa\ndef once(xa):\n    d2.Setting = xa\n    gg(xa + 1)\nwhile True:\n    once(d0.Setting)\n    gg(5)\n    d3.On = 1\n    yield_()\n"))
    out.append(("fn_forlist_once", HEADER + "def aloop(xa):\n    for val in [10, 20]:\n        d1.Setting = val + xa\ndef zlast(xa):\n    d2.Setting = xa\nwhile True:\n    aloop(d0.Setting)\n    zlast(1)\n    zlast(2)\n    yield_()\n"))
    out.append(("fn_boundexpr_func", HEADER + "def total(xn):\n    acc = 0\n    for idx in range(1, xn * 2 + 1):\n        acc += (idx + 1) * (idx + 2)\n    return acc\nwhile True:\n    d1.Setting = total(d0.Setting)\n    d2.Setting = total(1)\n    yield_()\n"))
    out.append(("fn_uncalled", HEADER + "def fa(xa):\n    return xa + 1\ndef fnever(xa):\n    d3.Setting = xa\n    return 0\nwhile True:\n    d1.Setting = fa(d0.Setting)\n    yield_()\n"))
    return out


def fam_pressure():
    out = []
    for k in (2, 5, 7, 11):
        reads = "\n".join(f"v{i} = d{i % 2}.Setting + {i}" for i in range(k))
        sums = "acc = v0\n" + "\n".join(f"acc = acc + v{i} * {i + 1}" for i in range(1, k))
        out.append((f"pr_live_{k}", _loop(reads + f"\n{sums}\nd2.Setting = acc\nd3.Setting = v0 - v{k-1}")))
    for k in (3, 5):
        reads = "\n".join(f"    v{i} = xa + {i}" for i in range(k))
        tot = " + ".join(f"v{i}" for i in range(k))
        out.append((f"pr_call_{k}", HEADER + f"def fa(xa):\n{reads}\n    return {tot}\nwhile True:\n    wa = d0.Setting\n    wb = wa * 2\n    wc = fa(wa)\n    d1.Setting = wa + wb + wc\n    yield_()\n"))
    # a function with a `for` loop (counter and loop variable share a register: a hole in the function's block of registers)
    # that keeps a temporary alive across a call of a second, not inlined function
    out.append(("pr_temp_across_call_in_for", HEADER + "def fz(xa):\n    ta = xa * 2\n    return ta + 1\ndef gz(xn):\n    total = 0\n    for ia in range(xn):\n        d1.Setting = (ia + 1) * (total + 2)\n"
                "        total += ia * 3 + fz(ia)\n    return total + fz(xn)\nwhile True:\n    d2.Setting = gz(3)\n    d3.Setting = gz(d0.Setting) + fz(1)\n    yield_()\n"))
    out.append(("pr_expr", _loop("va = d0.Setting\nvb = d1.Setting\nd2.Setting = (va + 1) * (vb + 2) - (va - vb) * (va + vb) + (va * 3 - vb * 4)")))
    out.append(("pr_loopcarried", _loop("va = d0.Setting\nvb = 1\nvc = 2\nfor idx in range(3):\n    vt = va + vb\n    vb = vc + idx\n    vc = vt\nd1.Setting = va + vb + vc")))
    return out


def fam_access():
    out = []
    out.append(("ac_dev", _loop("d1.Setting = d0.Temperature\nd1.On = d0.Pressure > 1")))
    out.append(("ac_slot", HEADER + "fz = AdvancedFurnace(d0)\nwhile True:\n    d1.Setting = fz.slot0.Occupied + fz.Export.Quantity\n    yield_()\n"))
    out.append(("ac_typed", HEADER + "hz = WallHeater(d0)\nwhile True:\n    hz.On = hz.Power < 1\n    d1.Setting = WallHeater(d2).Power\n    yield_()\n"))
    out.append(("ac_batch", _loop("vt = WallHeaters.Power.Average\nWallHeaters.On = vt < 1\nd0.Setting = WallHeaters.Maximum.Power")))
    out.append(("ac_named", _loop('va = GasSensors["out"].Pressure.Maximum\nd0.Setting = va\nWallLights["out"].On = va > 1')))
    out.append(("ac_batch_var", HEADER + "panels = SolarPanels\nsensor = DaylightSensor(d0)\nwhile True:\n    panels.Horizontal = sensor.Horizontal\n    panels.Vertical = 90 - sensor.Vertical\n    yield_()\n"))
    out.append(("ac_stack_other", _loop("stz = Stack(d1)\nva = stz[3]\nstz[4] = va + 1") if False else HEADER + "stz = Stack(d1)\nwhile True:\n    va = stz[3]\n    stz[4] = va + 1\n    yield_()\n"))
    out.append(("ac_stack_own", _loop("stack[10] = d0.Setting\nvb = stack[10]\nd1.Setting = vb + 1")))
    out.append(("ac_hash", _loop('d0.Setting = HASH("abc")\nd1.Setting = d0.PrefabHash == HASH("StructureWallHeater")')))
    out.append(("ac_math", _loop("va = d0.Setting\nd1.Setting = max(va, 1) + min(va, 0) + abs(va) + floor(va / 2)")))
    out.append(("ac_refid_device", HEADER + "lamp = WallLight(ref_id=d2.Setting)\nwhile True:\n    va = d0.Setting * 2 + 1\n    vb = va * va + 3\n    lamp.On = vb > va\n    d1.Setting = vb - va\n    yield_()\n"))
    out.append(("ac_refid_stack", HEADER + "sid = Autolathes.Minimum.ReferenceId\nstz = Stack(ref_id=sid)\nwhile True:\n    va = d0.Setting * 2 + 1\n    vb = va * va + 3\n    stz[0] = vb + va\n    d1.Setting = stz[1] + vb\n    yield_()\n"))
    out.append(("ac_refid_in_function", HEADER + "def feed(xa):\n    rid = Autolathes.Minimum.ReferenceId\n    stz = Stack(ref_id=rid)\n    va = xa * 2 + 1\n    vb = va * va + 3\n    stz[0] = vb + va\n    return vb\nwhile True:\n    d1.Setting = feed(d0.Setting) + feed(1)\n    yield_()\n"))
    # a named batch object whose name is held in a register (read from a device / passed as an argument), logic type first and method first
    out.append(("ac_batch_name_in_register", HEADER + "while True:\n    which = d0.Setting\n    doors = GlassDoors[which]\n    d1.Setting = doors.Open.Maximum\n    d2.Setting = doors.Maximum.Open\n"
                "    d3.Setting = GlassDoors[which].Lock.Minimum\n    doors.Open = 1\n    yield_()\n"))
    out.append(("ac_batch_name_as_argument", HEADER + "def openness(xw):\n    return GlassDoors[xw].Open.Maximum + GlassDoors[xw].Sum.Lock\nwhile True:\n    d1.Setting = openness(d0.Setting) + openness(5)\n    yield_()\n"))
    out.append(("ac_sleep", HEADER + "while True:\n    d1.Setting = d0.Setting\n    sleep(2)\n"))
    return out


def fam_lists():
    """constant lists of every length 1..9 with a run-time index (select chain below six entries, jump table from six on),
    and for-loops over constant lists (jal / j ra subroutine), also inside functions and with bodies that change the variable"""
    out = []
    vals = [4, 8, 15, 16, 23, 42, 7, 9, 11]
    for n in range(1, 10):
        lst = ", ".join(str(v) for v in vals[:n])
        guard = f"if vi >= 0 and vi < {n}:\n    d1.Setting = tbl[vi]\nelse:\n    d1.Setting = 0 - 1"
        out.append((f"ls_index_{n}", HEADER + f"tbl = [{lst}]\nwhile True:\n    vi = d0.Setting\n" + "\n".join("    " + x for x in guard.split("\n")) + "\n    yield_()\n"))
    out.append(("ls_index_6_wide", HEADER + "tbl = [4, 8, 15, 16, 23, 42]\nwhile True:\n    vi = d0.Setting + d1.Setting * 2\n    if vi >= 0 and vi < 6:\n        d2.Setting = tbl[vi] + 1\n    yield_()\n"))
    out.append(("ls_index_7_wide", HEADER + "tbl = [4, 8, 15, 16, 23, 42, 7]\nwhile True:\n    vi = d0.Setting + d1.Setting * 3 + 1\n    if vi >= 0 and vi < 7:\n        d2.Setting = tbl[vi] + 1\n    yield_()\n"))
    out.append(("ls_for_dups", _loop("acc = 0\nfor val in [10, 20, 20, 35]:\n    acc = acc + val\n    d0.Setting = val")))
    out.append(("ls_for_modifies_var", _loop("base = d1.Setting\nfor lev in [10, 20, 20, 35]:\n    lev += base\n    d0.Setting = lev")))
    out.append(("ls_for_in_function", HEADER + "def fa(xa):\n    acc = xa\n    for val in [3, 5, 5]:\n        acc = acc + val\n        d1.Setting = acc\n    return acc\nwhile True:\n    d2.Setting = fa(d0.Setting) + fa(1)\n    yield_()\n"))
    out.append(("ls_for_break", _loop("for val in [3, 5, 9]:\n    if val > d0.Setting:\n        d2.Setting = val\n        break\n    d1.Setting = val\nd3.On = 1")))
    out.append(("ls_for_hashes", _loop('for nh in [HASH("O2"), HASH("N2")]:\n    d0.Setting = nh')))
    return out


def fam_term():
    """C07: top-level code that ends, with at least one out-of-line function."""
    out = []
    out.append(("tm_one", HEADER + "def fa(xa):\n    d1.Setting = xa\n    return xa + 1\nva = fa(d0.Setting)\nvb = fa(va)\nd2.Setting = vb\n"))
    out.append(("tm_break", HEADER + "def fa(xa):\n    d1.Setting = xa\n    return xa + 1\nva = 0\nwhile True:\n    va = fa(va)\n    va = fa(va)\n    if va > 2:\n        break\n    yield_()\nd2.Setting = va\n"))
    out.append(("tm_void", HEADER + "def fa():\n    d1.On = 1\nfa()\nfa()\nd2.On = 1\n"))
    return out


def repo_programs(repo):
    """R: the repository's own programs (test/cases, examples, mod_scripts with their libraries).
    Each item: (name, source or {module: source})."""
    import glob
    import os
    import re

    out = []
    for f in sorted(glob.glob(os.path.join(repo, "test", "cases", "*.py"))):
        out.append(("rc_" + os.path.basename(f)[:-3], open(f, encoding="utf-8").read()))
    for f in sorted(glob.glob(os.path.join(repo, "src", "stationeers_pytrapic", "examples", "*.py"))):
        if "__init__" in f:
            continue
        out.append(("rx_" + os.path.basename(f)[:-3], open(f, encoding="utf-8").read()))
    for f in sorted(glob.glob(os.path.join(repo, "test", "mod_scripts", "*.py"))):
        src = open(f, encoding="utf-8").read()
        mods = {"": src}
        for m in re.finditer(r"^from library import (\w+)", src, re.M):
            lf = os.path.join(repo, "test", "mod_libraries", m.group(1) + ".py")
            if os.path.exists(lf):
                mods[m.group(1)] = open(lf, encoding="utf-8").read()
        out.append(("rs_" + os.path.basename(f)[:-3], mods))
    return out


FAMILIES = {
    "branches": fam_branches,
    "loops": fam_loops,
    "functions": fam_functions,
    "pressure": fam_pressure,
    "access": fam_access,
    "term": fam_term,
    "lists": fam_lists,
}


def family(name):
    return FAMILIES[name]()


def slice_(items, n, seed):
    """Seeded slice of n items that keeps the first member of every shape class
    (class = name up to the last '_')."""
    if n >= len(items):
        return list(items)
    rnd = random.Random(seed)
    classes = {}
    for it in items:
        classes.setdefault(it[0].rsplit("_", 1)[0], []).append(it)
    picked = [rnd.choice(v) for v in classes.values()]
    rest = [it for it in items if it not in picked]
    rnd.shuffle(rest)
    picked += rest[: max(0, n - len(picked))]
    return picked[: max(n, len(classes))]
