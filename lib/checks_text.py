CHECKS = {}
