"""Text / table level checks (DESIGN layer T): pure functions with rich case analysis are
specified in TLA+ (ShareLink, Stats, Tables, IC10Grammar/LineForm, NumFmt); TLC enumerates the
specification's behaviours, which are replayed into the real functions (spec -> code), and
evaluates the specification on artefacts/tables/traces extracted from the real code
(code -> spec)."""
import copy
import json
import os
import random
import re
import subprocess
import time

import compilew as cw
import corpus
import ic10load
from common import (NCPU, PY, REPO, SPEC, MachineryError, Reporter, known_findings, run_tlc, seed, workdir,
                    write_evidence)


def tlc(name, module, cfg, files=None, workers=8, timeout=900, heap="6g"):
    d = workdir(name)
    for fn, obj in (files or {}).items():
        with open(os.path.join(d, fn), "w") as f:
            json.dump(obj, f)
    cfgp = os.path.join(d, module + ".cfg")
    with open(cfgp, "w") as f:
        f.write(cfg)
    r = run_tlc(os.path.join(SPEC, module + ".tla"), cfgp, d, workers=workers, timeout=timeout, heap=heap)
    return r


def scen(r, tag="SCEN"):
    return [json.loads(p[1]) for p in r.tagged(tag)]


# ---------------------------------------------------------------------------------------
# C18 share links
# ---------------------------------------------------------------------------------------
NODE_SCRIPT = r"""
const fs = require('fs');
const xs = JSON.parse(fs.readFileSync(process.argv[2], 'utf8'));
const out = xs.map(s => { const u = new URL('https://example.org/app/?x=1'); u.searchParams.set('data', s);
  return new URL(u.toString()).searchParams.get('data'); });
fs.writeFileSync(process.argv[3], JSON.stringify(out));
"""


def url_transit(strings, d):
    """What URL.searchParams.set -> toString -> get does to each string (real URL implementation of node)."""
    node = None
    for cand in ("/usr/bin/nodejs", "/usr/bin/node"):
        if os.path.exists(cand):
            node = cand
            break
    if node is None:
        return None
    with open(os.path.join(d, "transit.js"), "w") as f:
        f.write(NODE_SCRIPT)
    with open(os.path.join(d, "transit_in.json"), "w") as f:
        json.dump(strings, f)
    p = subprocess.run([node, os.path.join(d, "transit.js"), os.path.join(d, "transit_in.json"), os.path.join(d, "transit_out.json")],
                       stdout=subprocess.PIPE, stderr=subprocess.STDOUT, timeout=300)
    if p.returncode != 0:
        return None
    with open(os.path.join(d, "transit_out.json")) as f:
        return json.load(f)


def gen_dicts(rnd, n):
    """JSON dictionaries as the web page shares them: source text + option values (+ nesting)."""
    pool = [s for fam in ("branches", "functions", "access") for _, s in corpus.family(fam)]
    alph = ["a", "Z", "0", " ", "\n", "\t", "+", "/", "=", "-", "_", "?", "&", "%", "#", "\"", "\\", "é", "ß", "中",
            "Ж", "\U0001F600", "\U00010348", "\u0000", "\u007f", "\ufeff", "\u200b"]
    out = []
    for k in range(n):
        kind = k % 7
        if kind == 6:
            # unpaired surrogates (half an emoji after a cut in the editor): JSON carries them as \uXXXX escapes.  Never a high one
            # directly followed by a low one - that pair IS one astral character in JSON and in JavaScript
            parts = [rnd.choice(["\ud83d", "\udc00", "\udfff a", "\ud800 ", "x\udbff", "\ude00\ud83d", "ab", "\n"]) for _ in range(rnd.randrange(1, 5))]
            code = "".join(p + ("." if p[-1:] >= "\ud800" and p[-1:] <= "\udbff" else "") for p in parts)
        elif kind == 0:
            code = rnd.choice(pool)
        elif kind == 1:
            code = "".join(rnd.choice(alph) for _ in range(rnd.randrange(0, 40)))
        elif kind == 2:
            code = rnd.choice(pool)[: rnd.randrange(0, 60)] + "".join(rnd.choice(alph) for _ in range(rnd.randrange(0, 8)))
        elif kind == 3:
            # long texts too (the JSON form of a non-ASCII character is six bytes): up to a few hundred kilobytes
            code = rnd.choice(alph) * rnd.choice([rnd.randrange(0, 300), 5000, 30000, 120000])
        elif kind == 4:
            code = "".join(chr(rnd.randrange(32, 0x2FFF)) for _ in range(rnd.randrange(1, 30)))  # below the surrogate range
        else:
            code = ""
        dct = {"code": code}
        if rnd.random() < 0.7:
            dct["compact"] = rnd.random() < 0.5
        if rnd.random() < 0.4:
            dct["options"] = {o: rnd.random() < 0.5 for o in rnd.sample(cw.OPTION_NAMES, rnd.randrange(0, 8))}
        if rnd.random() < 0.3:
            dct[rnd.choice(alph) + "k"] = rnd.choice([None, 0, -1, 2**40, 1.5, -0.25, [1, "x", None], {"n": {"m": []}}])
        if rnd.random() < 0.35:
            # any key is a key: one-letter names, abbreviations and prefixes of the page's own keys, next to the long ones
            for key in rnd.sample(["c", "m", "p", "v", "o", "co", "cod", "code_", "Code", "comments", "append_version", "", " ", "0"], rnd.randrange(1, 4)):
                dct[key] = rnd.choice([1, "x", True, None, code[:5]])
        out.append(dct)
    return out


def check_c18(tier, t0):
    from stationeers_pytrapic import types as T
    import zlib

    rep = Reporter("C18")
    maxlen = 5 if tier == "thorough" else 4
    byteset = "{0, 62, 63, 190, 239, 251, 255}"
    cfg = ("SPECIFICATION Spec\nCONSTANTS\n ByteSet = %s\n MaxLen = %d\nINVARIANT EncodedIsUrlSafe\nINVARIANT TransitHarmless\n"
           "INVARIANT RoundTrip\nINVARIANT PaddingRestored\nINVARIANT Compositional\nINVARIANT Export\nCHECK_DEADLOCK FALSE\n"
           % (byteset, maxlen))
    r = tlc("C18_model", "ShareLink", cfg, workers=8, timeout=1800)
    if not r.ok:
        # the design itself violates a property: this is about the specification, decide by reading the output
        raise MachineryError("ShareLink.tla: TLC did not complete cleanly:\n" + r.out[-3000:])
    scens = scen(r)
    if len(scens) < 100:
        raise MachineryError("ShareLink.tla exported only %d behaviours" % len(scens))
    # ---- spec -> code: every model behaviour through the real functions, zlib replaced by the model's bytes
    real_compress, real_decompress = zlib.compress, zlib.decompress
    captured = {}
    nrep = 0
    real_enc = []
    try:
        for sc in scens:
            raw = bytes(sc["raw"])
            want = "".join(chr(c) for c in sc["enc"])
            zlib.compress = lambda b, *a, _raw=raw, **k: _raw
            zlib.decompress = lambda b, *a, **k: (captured.__setitem__("b", bytes(b)), b"{}")[1]
            try:
                got = T.encode_data({})
            except Exception as e:
                got = "!raised %s: %s" % (type(e).__name__, e)
            nrep += 1
            real_enc.append(got)
            if got != want:
                rep.violation(["model"], "ENCODE_DIFFERS_FROM_SPEC",
                              {"property": "C18", "raw_bytes": sc["raw"], "spec_encoded": want, "real_encoded": got},
                              "bytes=%s spec=%r real=%r" % (sc["raw"], want, got))
                continue
            captured.clear()
            try:
                T.decode_data(got)
                back = captured.get("b")
            except Exception as e:
                back = "!raised %s: %s" % (type(e).__name__, e)
            if back != raw:
                rep.violation(["model"], "DECODE_DIFFERS_FROM_SPEC",
                              {"property": "C18", "raw_bytes": sc["raw"], "encoded": got, "bytes_reaching_decompress": list(back) if isinstance(back, bytes) else back},
                              "bytes=%s encoded=%r decode gave %r" % (sc["raw"], got, back))
    finally:
        zlib.compress, zlib.decompress = real_compress, real_decompress
    # ---- code -> spec: real dictionaries, recorded at the zlib boundary, validated by TLC as traces
    rnd = random.Random(seed() + 18)
    dicts = gen_dicts(rnd, 400 if tier == "thorough" else 120)
    obs = []
    obs_dicts = []
    texts = []
    rec = {}

    def comp(b, *a, **k):
        out = real_compress(b, *a, **k)
        rec["raw"] = out
        return out

    def decomp(b, *a, **k):
        rec["back"] = bytes(b)
        return real_decompress(b, *a, **k)

    nrt = 0
    try:
        zlib.compress, zlib.decompress = comp, decomp
        for dct in dicts:
            rec.clear()
            try:
                text = T.encode_data(dct)
            except Exception as e:
                rep.violation(["dict"], "ENCODE_RAISED", {"property": "C18", "dict": dct, "exception": repr(e)}, "encode_data raised %r" % e)
                continue
            bad = sorted({c for c in text if not re.match(r"[A-Za-z0-9_-]", c)})
            if bad:
                rep.violation(["dict"], "NOT_URL_SAFE", {"property": "C18", "dict": dct, "encoded": text, "characters": bad},
                              "encoded text contains %r" % bad)
            try:
                back = T.decode_data(text)
            except Exception as e:
                back = "!raised %s: %s" % (type(e).__name__, e)
            nrt += 1
            if back != dct:
                rep.violation(["dict"], "ROUND_TRIP", {"property": "C18", "dict_head": str(dct)[:300], "encoded_head": text[:200], "decoded_head": str(back)[:300]},
                              "decode_data(encode_data(d)) != d for d=%r" % (str(dct)[:80]))
            elif isinstance(back, dict):
                # the page changes what it got (data.compact = true) and may open the same link again in the same process
                back["compact"] = "changed by the caller"
                back["added"] = 1
                try:
                    again = T.decode_data(text)
                except Exception as e:
                    again = "!raised %s: %s" % (type(e).__name__, e)
                if again != dct:
                    rep.violation(["dict"], "ROUND_TRIP_SECOND_DECODE", {"property": "C18", "dict_head": str(dct)[:300], "second_decode_head": str(again)[:300]},
                                  "decoding the same link again after the caller changed the first result gives %r" % (str(again)[:80]))
            if "raw" in rec and len(rec["raw"]) <= 1500:   # long payloads are judged black-box only (TLC evaluates the short ones)
                obs.append({"raw": list(rec["raw"]), "enc": [ord(c) for c in text], "back": list(rec.get("back", b"")) if "back" in rec else [-1]})
                obs_dicts.append(dct)
            texts.append(text)
    finally:
        zlib.compress, zlib.decompress = real_compress, real_decompress
    if not obs:
        raise MachineryError("no observation recorded at the zlib boundary (encode_data no longer calls zlib.compress?)")
    mut = copy.deepcopy(obs[0])
    mut["enc"][0] = 45 if mut["enc"][0] != 45 else 95
    tcfg = ("SPECIFICATION TSpec\nCONSTANTS\n ByteSet = {0}\n MaxLen = 0\nCHECK_DEADLOCK FALSE\n")
    rt = tlc("C18_trace", "ShareLinkTrace", tcfg, files={"obs.json": obs + [mut]}, workers=8, timeout=1800)
    if not rt.ok:
        raise MachineryError("ShareLinkTrace.tla failed:\n" + rt.out[-3000:])
    tv = rt.verdicts()
    if tv.get(len(obs) + 1, set()) - {"reported"} == {"OK"} or not tv.get(len(obs) + 1):
        raise MachineryError("binding self-test failed: a corrupted observation was accepted by ShareLinkTrace")
    for k in range(1, len(obs) + 1):
        vs = tv.get(k, set()) - {"reported"}
        if not vs:
            raise MachineryError("no verdict for observation %d" % k)
        for v in vs:
            if v != "OK":
                rep.violation(["dict"], v, {"property": "C18", "dict": str(obs_dicts[k - 1])[:400], "observation": obs[k - 1]},
                              "observation %d rejected by the specification: %s" % (k, v))
    # ---- the page's URL handling, with the real URL implementation of node
    d = workdir("C18_url")
    allstr = sorted(set(texts + [t for t in real_enc if not t.startswith("!")]))
    back = url_transit(allstr, d)
    url_checked = 0
    if back is not None:
        for a, b in zip(allstr, back):
            url_checked += 1
            if a != b:
                rep.violation(["url"], "CHANGED_IN_URL", {"property": "C18", "encoded": a, "after_url": b},
                              "encoded text %r comes back from the URL as %r" % (a[:40], b[:40] if b else b))
    cov = {
        "states": r.distinct + rt.distinct, "transitions": r.generated + rt.generated,
        "traces_validated_against_impl": len(obs), "spec_behaviours_replayed_into_code": nrep,
        "round_trips_of_real_dictionaries": nrt, "url_transits_checked_with_node": url_checked,
        "exhaustive": True,
        "rule": "model: all byte strings of length <= %d over %s (produces every sextet class incl. '+', '/', padding 0/1/2) through the "
                "10-step pipeline; every behaviour replayed into encode_data/decode_data with zlib replaced by the model's bytes; "
                "real dictionaries (corpus sources, Unicode incl. astral planes, NUL, BOM; unpaired surrogates, one-letter and prefix keys, option values, nesting) recorded at the "
                "zlib boundary and validated as traces by ShareLinkTrace.tla" % (maxlen, byteset),
        "samples": [{"raw_bytes": scens[len(scens) // 2]["raw"], "encoded": "".join(chr(c) for c in scens[len(scens) // 2]["enc"])},
                    {"dict": str(dicts[1])[:400], "encoded": (texts[1][:200] if len(texts) > 1 else None)}],
        "binding_self_test": "corrupted observation rejected",
        "known_findings_hit": sorted(rep.known),
    }
    write_evidence("C18", tier, "model_checking", cov, time.time() - t0, violations=len(rep.violations),
                   assumptions=["json.dumps/loads and zlib.compress/decompress are inverse on the generated dictionaries (standard library; exercised, not modelled)",
                                "dictionaries have string keys and JSON values (finite numbers)",
                                "URL transit = WHATWG URLSearchParams as implemented by node %s" % ("(checked)" if back is not None else "(node not found: modelled only)")])
    return rep.finish()


CHECKS = {"C18": check_c18}


# ---------------------------------------------------------------------------------------
# C17 statistics
# ---------------------------------------------------------------------------------------
EXPLICIT_REG = re.compile(r"\br(1[0-6]|[0-9])\b")


def main_text(src):
    return src if isinstance(src, str) else "\n".join(src.values())


def stats_vectors(tier):
    v = [cw.REF, dict(cw.opts(inline_functions=True), append_version=True),
         cw.opts(original_code_as_comment=True, generated_comments=True, append_version=True),
         cw.opts(inline_functions=True, remove_labels=True, compact=True),
         cw.opts(use_push_pop_functions=True, remove_labels=True, append_version=True),
         cw.opts(compact=True), cw.opts(compact=True, generated_comments=True, append_version=True)]     # compact WITHOUT remove_labels
    if tier == "thorough":
        v += [cw.opts(tail_call_optimization=True, compact=True), cw.opts(generated_comments=True, remove_labels=True),
              cw.opts(original_code_as_comment=True, inline_functions=True), cw.opts(append_version=True, compact=True, inline_functions=True)]
    return v


def edge_programs():
    H = corpus.HEADER
    return [
        ("ed_empty", ""),
        ("ed_import_only", H),
        ("ed_comment_only", "# nothing here\n"),
        ("ed_pass", H + "pass\n"),
        ("ed_unused_assign", H + "xa = 1\n"),
        ("ed_one_line", H + "d0.Setting = 1\n"),
        ("ed_one_yield", H + "yield_()\n"),
        ("ed_unused_function", H + "def fa(xa):\n    return xa\n"),
        ("ed_nonascii_comment", H + "# Überdruck prüfen 中\nva = d0.Pressure  # größer?\nd1.On = va > 1  # ñ\n"),
        ("ed_label_only_loop", H + "while True:\n    pass\n"),
        ("ed_16_regs", H + "while True:\n" + "".join("    w%d = d0.Setting + %d\n" % (i, i) for i in range(16)) +
         "    d1.Setting = " + " + ".join("w%d" % i for i in range(16)) + "\n    yield_()\n"),
        ("ed_no_regs", H + "while True:\n    d0.On = 1\n    yield_()\n"),
    ]


def module_stat_programs():
    """Libraries whose registers belong to no function: module-level state, functions that only touch globals or constants."""
    H = corpus.HEADER
    lib_state = (H + "total = 0\npeak = 0\nlast = 0\ndef note():\n    global total, last, peak\n    last = d0.Setting\n    total += 1\n"
                 "    peak = max(peak, last)\n    db.Setting = peak\n")
    main1 = H + "from library import st\nna = 0\nwhile True:\n    yield_()\n    st.note()\n    na += 1\n    d1.Setting = na\n"
    lib_only_vars = H + "seen = 0\ndef bump():\n    global seen\n    seen = seen + d2.Setting\n    d3.Setting = seen\n"
    main2 = H + "from library import lv\nwhile True:\n    lv.bump()\n    yield_()\n"
    lib_inl = H + "def twice(xa):\n    return xa * 2\n"
    main3 = H + "from library import li\nwhile True:\n    d0.Setting = li.twice(d1.Setting)\n    yield_()\n"
    return [("ms_lib_state_no_locals", {"": main1, "st": lib_state}), ("ms_lib_only_vars", {"": main2, "lv": lib_only_vars}),
            ("ms_lib_inlined_only", {"": main3, "li": lib_inl})]


def check_c17(tier, t0):
    import checks_lang as CL

    rep = Reporter("C17")
    progs = [(n, s) for n, s, _ in CL.pick(CL.all_progs(), tier, 45)]
    progs += [(n, s) for n, s in corpus.family("term")] + edge_programs()
    progs += [(n, s) for n, s in corpus.repo_programs(REPO) if not EXPLICIT_REG.search(main_text(s))]
    # several source files: the statistics cover the library modules' lines and registers as well
    progs += [(n, split) for n, split, _ in CL.modules_family()] + module_stat_programs()
    vecs = stats_vectors(tier)
    jobs, meta = [], []
    for n, s in progs:
        for v in vecs:
            jobs.append({"src": s, "options": v})
            meta.append((n, s, v))
    res = cw.compile_many(jobs)
    cases, cmeta = [], []
    nerr = 0
    for (n, s, v), r in zip(meta, res):
        if r["raised"]:
            continue  # C10's business
        out = r["result"]
        if not isinstance(out, dict) or "code" not in out:
            nerr += 1
            if n.startswith("ms_") and v == vecs[0]:
                print("NOTE: hand-written case %s does not compile on this tree: %s" % (n, str(out)[:200]))
            continue
        code = out["code"]
        missing = [k for k in ("num_lines", "num_bytes", "num_registers") if not isinstance(out.get(k), int)]
        if missing or not isinstance(code, str):
            rep.violation([n, n + "@" + cw.vec_name(v)], "STATISTICS_MISSING", {"property": "C17", "case": n, "options": v, "source": s, "result": out},
                          "case=%s variant=%s result lacks %s" % (n, cw.vec_name(v), missing))
            continue
        regs = sorted({int(m.group(1)) for l in code.split("\n") for t in ic10load.tokenize(l) for m in [re.match(r"^r(\d+)$", t)] if m})
        post = [e for e in (r["events"] or []) if e["ev"] == "h1_post"]
        used = sorted(int(x) for x in post[0]["used"]) if len(post) == 1 else [-1]
        cases.append({"code": [ord(c) for c in code], "nl": out["num_lines"], "nb": out["num_bytes"], "nr": out["num_registers"],
                      "regs": regs, "used": used})
        cmeta.append((n, s, v, out))
    if not cases:
        raise MachineryError("no successful compilation to check")
    if not any(c["used"] != [-1] for c in cases):
        raise MachineryError("hook H1 delivered no allocation record (is the hook commit applied and the guard on?)")
    mut = copy.deepcopy(next(c for c in cases if c["nl"] > 1))
    mut["nb"] += 1
    r = tlc("C17", "Stats", "SPECIFICATION Spec\nCHECK_DEADLOCK FALSE\n", files={"cases.json": cases + [mut]}, workers=8, timeout=1800)
    if not r.ok:
        raise MachineryError("Stats.tla failed:\n" + r.out[-3000:])
    tv = r.verdicts()
    if "NUM_BYTES_WRONG" not in tv.get(len(cases) + 1, set()):
        raise MachineryError("binding self-test failed: Stats.tla accepted a corrupted byte count")
    bad = 0
    for k in range(1, len(cases) + 1):
        vs = tv.get(k, set()) - {"reported"}
        if not vs:
            raise MachineryError("no verdict for case %d" % k)
        n, s, v, out = cmeta[k - 1]
        for vd in vs:
            if vd == "OK":
                continue
            if rep.violation([n, n + "@" + cw.vec_name(v)], vd,
                             {"property": "C17", "case": n, "options": v, "source": s, "result": out, "verdict": vd},
                             "case=%s variant=%s %s (num_lines=%s num_bytes=%s num_registers=%s)" %
                             (n, cw.vec_name(v), vd, out["num_lines"], out["num_bytes"], out["num_registers"])):
                bad += 1
    distinct = len({json.dumps(c["code"]) for c in cases})
    cov = {"states": r.distinct, "transitions": r.generated, "traces_validated_against_impl": len(cases),
           "evaluations": len(cases), "distinct_nontrivial": distinct,
           "rule": "every successful result of compiling the program families, the terminating family, edge programs (empty, imports "
                   "only, comments only, non-ASCII comments, 0 and 16 registers) and the repository's own programs (those that do not "
                   "name registers explicitly) under %d option vectors incl. comment/version/label-removal vectors; TLC evaluates "
                   "Stats.tla on each: lines, bytes with two-byte line ends, registers vs tokens in the text and vs hook H1's allocation; "
                   "distinct = distinct emitted texts" % len(vecs),
           "samples": [{"case": cmeta[0][0], "options": cw.vec_name(cmeta[0][2]), "result": cmeta[0][3]},
                       {"case": cmeta[-1][0], "options": cw.vec_name(cmeta[-1][2]), "result": cmeta[-1][3]}],
           "compile_errors_skipped": nerr, "binding_self_test": "corrupted byte count rejected", "known_findings_hit": sorted(rep.known)}
    write_evidence("C17", tier, "model_checking", cov, time.time() - t0, violations=bad,
                   assumptions=["size is counted in characters (the emitted text is ASCII except for copied source comments)",
                                "register tokens are found with the loader's tokeniser (comments excluded)",
                                "hook H1 reports the allocator's result (cross-checked by C04's binding test)"])
    return rep.finish()


CHECKS["C17"] = check_c17


# ---------------------------------------------------------------------------------------
# C16 tables
# ---------------------------------------------------------------------------------------
def _tables_job(job):
    import tables

    return tables.run(job)


def structure_program(e):
    """One program per structure: single read, batch read, batch write, every named slot."""
    n = e["name"]
    pl = e["plurals"][0]["name"] if e["plurals"] else None
    lts = [l["prop"] for l in e["logic"] if l["prop"] not in ("Minimum", "Maximum", "Average", "Sum")] or ["PrefabHash"]
    lt = "On" if "On" in lts else lts[0]
    src = corpus.HEADER + "xs = %s(d0)\ndb.Setting = xs.%s\n" % (n, lt)
    if pl:
        src += "d1.Setting = %s.%s.Maximum\n" % (pl, lt)
        src += "%s.%s = 1\n" % (pl, lt)
        src += "d3.Setting = %s.Average.%s + %s.Sum.%s\n" % (pl, lt, pl, lt)
        src += 'd4.Setting = %s["nm"].Average.%s + %s["nm"].%s.Maximum\n' % (pl, lt, pl, lt)
        src += '%s["nm"].%s = 2\n' % (pl, lt)
    for s in e["named"]:
        src += "d2.Setting = xs.%s.Occupied\n" % s["name"]
    return src


def dyn_of(e, code):
    """What the compiled program says: hash operand of lb/sb, slot numbers of ls lines (compact mode: numbers)."""
    out = {"ok": code is not None, "lb_hash": 0, "sb_hash": 0, "slots": [], "all_hashes": []}
    if code is None:
        return out
    want = [s["idx"] for s in e["named"]]
    ls = []
    for l in code.split("\n"):
        t = ic10load.tokenize(l)
        if not t:
            continue
        if t[0] == "lb" and len(t) == 5:
            v = ic10load.number_value(t[2])
            out["lb_hash"] = int(v) if v is not None and v.denominator == 1 and abs(v) < 2**31 else 0
        if t[0] == "sb" and len(t) == 4:
            v = ic10load.number_value(t[1])
            out["sb_hash"] = int(v) if v is not None and v.denominator == 1 and abs(v) < 2**31 else 0
        if t[0] in ("lb", "lbn", "sb", "sbn") and len(t) >= 4:
            v = ic10load.number_value(t[2] if t[0] in ("lb", "lbn") else t[1])
            out["all_hashes"].append(int(v) if v is not None and v.denominator == 1 and abs(v) < 2**31 else 0)
        if t[0] == "ls" and len(t) == 5:
            v = ic10load.number_value(t[3])
            ls.append(int(v) if v is not None and v.denominator == 1 else -1)
    if not e["plurals"]:
        out["lb_hash"] = out["sb_hash"] = e["hash"]
    for k, w in enumerate(want):
        out["slots"].append({"want": w, "got": ls[k] if k < len(ls) else -1})
    return out


def check_c16(tier, t0):
    rep = Reporter("C16")
    tab = cw.pool().apply(_tables_job, ({"repo": REPO},))
    structures, wrappers, enums = tab["structures"], tab["wrappers"], tab["enums"]
    if len(structures) < 300 or len(wrappers) < 140 or len(enums) < 20:
        raise MachineryError("table extraction found %d structures, %d wrappers, %d enums" % (len(structures), len(wrappers), len(enums)))
    jobs = [{"src": structure_program(e), "options": cw.opts(compact=True)} for e in structures]
    res = cw.compile_many(jobs)
    nlines = 0
    for e, r, j in zip(structures, res, jobs):
        code = r["result"].get("code") if isinstance(r["result"], dict) else None
        e["dyn"] = dyn_of(e, code)
        e["dyn_src"] = j["src"]
        e["dyn_code"] = code if code is not None else (r["result"] or r["raised"])
        nlines += len(code.split("\n")) if code else 0
    glob = {"kind": "global", "json_ops": tab["json_ops"], "orphan_plurals": tab["orphan_plurals"],
            "wrapper_ops": sorted({w["op"] for w in wrappers if w["op"]})}
    entries = structures + wrappers + enums + [glob]
    mut = copy.deepcopy(structures[0])
    mut["hash"] += 1
    mut2 = copy.deepcopy(next(w for w in wrappers if len(w["ops"]) >= 2))
    mut2["ops"][0], mut2["ops"][1] = mut2["ops"][1], mut2["ops"][0]
    slim = lambda e: {k: v for k, v in e.items() if k not in ("dyn_src", "dyn_code", "prefab_text")}
    r = tlc("C16", "Tables", "SPECIFICATION Spec\nCHECK_DEADLOCK FALSE\n", files={"entries.json": [slim(e) for e in entries + [mut, mut2]]},
            workers=NCPU, timeout=1800)
    if not r.ok:
        raise MachineryError("Tables.tla failed:\n" + r.out[-3000:])
    tv = r.verdicts()
    n = len(entries)
    if "HASH_IS_NOT_CRC32_OF_PREFAB_NAME" not in tv.get(n + 1, set()) or "OPERANDS_OUT_OF_ORDER" not in tv.get(n + 2, set()):
        raise MachineryError("binding self-test failed: Tables.tla accepted corrupted entries (%s, %s)" % (tv.get(n + 1), tv.get(n + 2)))
    bad = 0
    for k in range(1, n + 1):
        vs = tv.get(k, set()) - {"reported"}
        if not vs:
            raise MachineryError("no verdict for entry %d" % k)
        e = entries[k - 1]
        for vd in vs:
            if vd == "OK":
                continue
            key = "%s:%s" % (e["kind"], e.get("name", "tables"))
            if rep.violation([key], vd, {"property": "C16", "entry": e, "verdict": vd}, "%s %s" % (key, vd)):
                bad += 1
    cov = {"states": r.distinct, "transitions": r.generated, "traces_validated_against_impl": n, "exhaustive": True,
           "evaluations": n, "distinct_nontrivial": n,
           "structures": len(structures), "plural_forms": sum(len(e["plurals"]) for e in structures), "intrinsic_wrappers": len(wrappers),
           "enums": len(enums), "enum_members": sum(len(e["members"]) for e in enums),
           "named_slots": sum(len(e["named"]) for e in structures), "logic_type_properties": sum(len(e["logic"]) for e in structures),
           "generated_programs_compiled": len(jobs), "emitted_lines_inspected": nlines,
           "rule": "every generated structure class (hash = CRC-32 of the prefab name recomputed in TLC, batch form with the same hash, "
                   "numbered and named slots of both forms, logic-type properties), every intrinsic wrapper called with distinct marker "
                   "arguments (instruction name, operand order, result <=> OpSig has an output register, opcode in webapp/src/ic10.json), "
                   "every enum (no two names share a number); plus one generated program per structure compiled in compact mode: the "
                   "numbers that reach the emitted text must be the table's",
           "samples": [{"structure": structures[5]["name"], "program": structures[5]["dyn_src"], "emitted": structures[5]["dyn_code"]},
                       {"wrapper": wrappers[20]}],
           "binding_self_test": "corrupted hash and swapped operands rejected", "known_findings_hit": sorted(rep.known)}
    write_evidence("C16", tier, "model_checking", cov, time.time() - t0, violations=bad,
                   assumptions=["OpSig in spec/IC10Grammar.tla (written from the in-game instruction reference) is the oracle for operand counts and output registers",
                                "the game's numbering of enums, logic types and slot names is not available offline: only internal consistency is decided",
                                "Python reflection (inspect) of the imported modules of the working tree"])
    return rep.finish()


CHECKS["C16"] = check_c16


# ---------------------------------------------------------------------------------------
# C09 loadable IC10
# ---------------------------------------------------------------------------------------
def names_json():
    en = ic10load.enums()
    q = []
    for cls, mem in en.items():
        for m in mem:
            q.append(cls + "." + m)
    return {"lt": sorted(en.get("LogicType", {})), "st": sorted(en.get("LogicSlotType", {})), "bm": sorted(en.get("LogicBatchMethod", {})),
            "rm": sorted(en.get("LogicReagentMode", {})), "qualified": sorted(q)}


def lineform_case(code):
    lines = []
    labels = []
    for l in (code.split("\n") if code != "" else []):
        toks = ic10load.tokenize(l)
        com = ic10load.comment_of(l)
        if len(toks) == 1 and toks[0].endswith(":") and len(toks[0]) > 1:
            labels.append(toks[0][:-1])
        lines.append({"toks": [{"t": t, "c": [ord(ch) if ord(ch) < 2**20 else 63 for ch in t]} for t in toks], "len": len(l),
                      "note": bool(com is not None and "Generated by PyTrapIC" in com)})
    return {"lines": lines, "labelnames": sorted(set(labels))}


def wrapper_sweep():
    """One small program per intrinsic wrapper, arguments chosen by the operand kinds of OpSig."""
    sig = ic10load.opsig()
    arg_for = {"N": ["va", "2", "1.5"], "D": ["d0", "db"], "LT": ["LogicType.Setting"], "ST": ["LogicSlotType.Occupied"],
               "BM": ["LogicBatchMethod.Maximum"], "RM": ["LogicReagentMode.Contents"], "T": ["0"], "NAME": ['"foo"'], "RD": ["d1"]}
    progs = []
    for op, kinds in sorted(sig.items()):
        if op in ("label",):
            continue
        fname = op + "_" if op in ("yield", "and", "or", "not") else op
        ks = list(kinds)
        has_out = bool(ks) and ks[0] == "R"
        if has_out and op not in ("ins",):
            ks = ks[1:]
        elif has_out:
            ks = ks  # ins: register passed explicitly
        for variant in range(2):
            args = []
            for k in ks:
                if k == "R":
                    args.append("r5")
                else:
                    opts = arg_for[k]
                    args.append(opts[variant % len(opts)])
            call = "%s(%s)" % (fname, ", ".join(args))
            body = "va = d0.Setting\n"
            if has_out and op != "ins":
                body += "vr = %s\nd1.Setting = vr\n" % call
            else:
                body += call + "\n"
            progs.append(("iw_%s_%d" % (op, variant), corpus.HEADER + body))
    return progs


def check_c09(tier, t0):
    import checks_lang as CL

    rep = Reporter("C09")
    progs = [(n, s) for n, s, _ in CL.pick(CL.all_progs(), tier, 40)] + list(corpus.family("term")) + edge_programs()
    progs += [(n, s) for n, s, _ in CL.names_family()] + CL.strings_family()
    progs += corpus.repo_programs(REPO)
    progs += [(n, s) for n, s, _ in CL.big_programs()]      # at the register limit: rejected, or emitted within r0..r15
    progs += wrapper_sweep()
    progs += [("nf_bool_operand", corpus._loop("ka = 1 < 2\nd0.Setting = ka\nkb = not 0\nd1.Setting = kb\nd2.Setting = (3 == 3) + d0.On")),
              ("nf_inlined_float_arg", corpus.HEADER + "def fa(xa):\n    return xa * 2\ndef fb(xa, xb):\n    d2.Setting = xa + xb\nwhile True:\n    d0.Setting = fa(0.00001)\n    fb(1e-7, 123456789.5)\n    yield_()\n"),
              ("nf_long_lines", corpus.HEADER + "".join("d%d.Setting = d%d.Temperature * 1.000001 + d%d.Pressure  # a long trailing comment to make this line long enough %d\n" % (i % 6, (i + 1) % 6, (i + 2) % 6, i) for i in range(4))),
              ("br_long_remarks", [s for n, s in corpus.family("branches") if n == "br_long_remarks"][0]),
              ("nf_undefined", corpus._loop("d1.Setting = nothere + 1\nd2.Setting = nothere")),
              ("nf_bitnot", corpus._loop("d1.Setting = ~d0.Setting")), ("nf_unary", corpus._loop("va = d0.Setting\nd1.Setting = -va\nd1.On = not va"))]
    vecs = [cw.REF, dict(cw.opts(inline_functions=True), append_version=True),
            cw.opts(original_code_as_comment=True, generated_comments=True, append_version=True),
            cw.opts(inline_functions=True, remove_labels=True, compact=True, append_version=True),
            cw.opts(original_code_as_comment=True, remove_labels=True, append_version=True)]
    if tier == "thorough":
        vecs += [cw.opts(use_push_pop_functions=True, tail_call_optimization=True), cw.opts(compact=True), cw.opts(remove_labels=True, generated_comments=True)]
    jobs, meta = [], []
    for n, s in progs:
        for v in (vecs if not n.startswith("iw_") else vecs[:1] + vecs[3:4]):
            if v.get("original_code_as_comment") and v.get("remove_labels") and not (n.startswith(("nf_", "br_", "ed_", "nm_")) or tier == "thorough"):
                continue
            jobs.append({"src": s, "options": v})
            meta.append((n, s, v))
    res = cw.compile_many(jobs)
    cases, cmeta = [], []
    nerr = 0
    seen = set()
    for (n, s, v), r in zip(meta, res):
        out = r["result"]
        if r["raised"] or not isinstance(out, dict) or not isinstance(out.get("code"), str):
            nerr += 1
            continue
        if out["code"] in seen:
            continue
        seen.add(out["code"])
        cases.append(lineform_case(out["code"]))
        cmeta.append((n, s, v, out["code"]))
    if len(cases) < 50:
        raise MachineryError("only %d compiled programs" % len(cases))
    mut = copy.deepcopy(next(c for c in cases if any(len(l["toks"]) >= 3 for l in c["lines"])))
    for l in mut["lines"]:
        if len(l["toks"]) >= 3:
            l["toks"][1] = {"t": "__register.7_", "c": [ord(ch) for ch in "__register.7_"]}
            break
    r = tlc("C09", "LineForm", "SPECIFICATION Spec\nCHECK_DEADLOCK FALSE\n", files={"cases.json": cases + [mut], "names.json": names_json()},
            workers=NCPU, timeout=3000)
    if not r.ok:
        raise MachineryError("LineForm.tla failed:\n" + r.out[-3000:])
    verd = {}
    for p in r.tagged("VERDICTS"):
        for item in p[2]["__set__"]:
            verd.setdefault(p[1], []).append((item[1], item[0]))
    if not any(v[0] == "PLACEHOLDER_OR_PYTHON_SPELLING" for v in verd.get(len(cases) + 1, [])):
        raise MachineryError("binding self-test failed: LineForm.tla accepted a virtual register name")
    bad = 0
    nlines = sum(len(c["lines"]) for c in cases)
    for k in range(1, len(cases) + 1):
        vs = verd.get(k)
        if not vs:
            raise MachineryError("no verdict for case %d" % k)
        n, s, v, code = cmeta[k - 1]
        for vd, ln in vs:
            if vd == "OK":
                continue
            text = code.split("\n")[ln - 1] if 0 < ln <= len(code.split("\n")) else ""
            opn = (ic10load.tokenize(text) or [""])[0]
            if rep.violation([n, n + "@" + cw.vec_name(v), "op:" + opn], vd,
                             {"property": "C09", "case": n, "options": v, "source": s, "code": code, "line": ln, "text": text, "verdict": vd},
                             "case=%s variant=%s line %d `%s`: %s" % (n, cw.vec_name(v), ln, text.strip()[:60], vd)):
                bad += 1
    cov = {"states": r.distinct, "transitions": r.generated, "traces_validated_against_impl": len(cases),
           "evaluations": len(cases), "distinct_nontrivial": len(cases), "emitted_lines_checked": nlines,
           "rule": "distinct emitted texts of: program families, terminating family, edge programs, identifier and string families, the "
                   "repository's own programs, one program per intrinsic wrapper (2 argument variants chosen by OpSig kinds), under %d "
                   "option vectors (comments, version note, compact, labels removed); TLC evaluates LineForm.tla on every line: label "
                   "definition or known opcode with the operand count and kinds of OpSig, registers r0-r15/sp/ra, devices d0-d5/db/alias, "
                   "numbers in IC10 syntax, no placeholder or Python spelling, version note line <= 90 characters" % len(vecs),
           "samples": [{"case": cmeta[0][0], "emitted": cmeta[0][3]}, {"case": cmeta[-1][0], "emitted": cmeta[-1][3]}],
           "compile_errors_skipped": nerr, "binding_self_test": "virtual register name rejected", "known_findings_hit": sorted(rep.known)}
    return rep, cov, bad


CHECKS["C09"] = lambda tier, t0: _c09_finish(tier, t0)


def _c09_finish(tier, t0):
    rep, cov, bad = check_c09(tier, t0)
    rep2, cov2, bad2 = check_c09_numbers(tier, t0)
    cov.update(cov2)
    write_evidence("C09", tier, "model_checking", cov, time.time() - t0, violations=bad + bad2,
                   assumptions=["IC10 number syntax = decimal without exponent, $hex, %binary (the formatter's own avoidance of exponents and the "
                                "editor's highlighter agree; the game binary is not available)",
                                "OpSig (spec/IC10Grammar.tla) gives operand counts and kinds; bare logic/slot/batch names are accepted in value positions",
                                "the harness tokenises lines (whitespace, HASH(\"..\")/STR(\"..\") kept whole, '#' starts a comment)"])
    rc = rep.finish()
    rc2 = rep2.finish()
    return 1 if (rc or rc2) else 0


def dec_of(v, cut=40):
    """exact decimal expansion of a Python int/float as NumFmt.tla's [neg, dig, pt], cut after `cut` significant digits
    (ints are never cut)"""
    from decimal import Decimal

    d = Decimal(v)
    sign, digits, exp = d.as_tuple()
    digits = list(digits)
    pt = len(digits) + exp
    if isinstance(v, float):
        digits = digits[:cut]
    while digits and digits[-1] == 0:
        digits.pop()
    lead = 0
    while lead < len(digits) and digits[lead] == 0:
        lead += 1
    digits = digits[lead:]
    pt -= lead
    if not digits:
        return {"neg": False, "dig": [], "pt": 0}
    return {"neg": bool(sign), "dig": digits, "pt": pt}


def render_literal(D):
    dig = "".join(str(x) for x in D["dig"]) or "0"
    pt = D["pt"]
    if pt >= len(dig):
        body = dig + "0" * (pt - len(dig))
    elif pt <= 0:
        body = "0." + "0" * (-pt) + dig
    else:
        body = dig[:pt] + "." + dig[pt:]
    return ("-" if D["neg"] else "") + body


FOLDED = ["1/3", "2/3", "0.1+0.2", "10/4", "7/2", "1e-7", "5e-324", "1.7976931348623157e308", "2**0.5", "2**53", "2**53+2", "2**64",
          "-2**31", "1e16", "1e15+0.5", "123456789.123456789", "0.1", "0.09999999999999999", "0.30000000000000004", "1e-5", "3.0", "-0.0",
          "1/7", "1e22", "9007199254740993", "4503599627370496.5", "255", "65536", "1e6", "-1e6", "100000*100000", "0.5**20", "pi", "tau", "rgas"]


def check_c09_numbers(tier, t0):
    import math

    rep = Reporter("C09")
    pts = "PointsThorough" if tier == "thorough" else "PointsQuick"
    g = tlc("C09_grid", "NumFmt", "SPECIFICATION SpecGen\nCONSTANTS\n Mantissas <- MantissaGrid\n Points <- %s\nINVARIANT ExportGrid\nCHECK_DEADLOCK FALSE\n" % pts,
            workers=4, timeout=600)
    if not g.ok:
        raise MachineryError("NumFmt.tla (grid) failed:\n" + g.out[-2000:])
    lits = [render_literal(json.loads(p[1])) for p in g.tagged("LIT")]
    lits = sorted(set(lits)) + FOLDED
    env = {"pi": math.pi, "tau": 2 * math.pi, "rgas": 8.31446261815324}
    vals = []
    for l in lits:
        v = eval(l, {"__builtins__": {}}, env)
        if isinstance(v, float) and v == int(v) if isinstance(v, float) and math.isfinite(v) else False:
            v = int(v)  # IC10Operand: an integral float is an integer
        vals.append(v)
    per = 12
    jobs, groups = [], []
    for k in range(0, len(lits), per):
        grp = list(range(k, min(k + per, len(lits))))
        src = corpus.HEADER + "".join("d0.Setting = %s\n" % lits[i] for i in grp)
        for v in (cw.REF, cw.opts(compact=True, remove_labels=True)):
            jobs.append({"src": src, "options": v})
            groups.append((grp, v, src))
    res = cw.compile_many(jobs)
    cases, cmeta = [], []
    for (grp, v, src), r in zip(groups, res):
        out = r["result"]
        code = out.get("code") if isinstance(out, dict) else None
        toks = []
        if isinstance(code, str):
            for l in code.split("\n"):
                t = ic10load.tokenize(l)
                if len(t) == 4 and t[0] == "s" and t[1] == "d0":
                    toks.append(t[3])
        for j, i in enumerate(grp):
            tok = toks[j] if (len(toks) == len(grp)) else ""
            cases.append({"tok": [ord(ch) for ch in tok], "val": dec_of(vals[i]), "alt": dec_of(float(vals[i])), "int": isinstance(vals[i], int)})
            cmeta.append((lits[i], v, tok, src, code if code is not None else out))
    mut = copy.deepcopy(next(c for c in cases if len(c["tok"]) > 3 and not c["int"]))
    mut["tok"][-1] = 49 if mut["tok"][-1] != 49 else 50
    mut["tok"] = mut["tok"][:3] if len(mut["tok"]) > 8 else mut["tok"] + [57]
    r = tlc("C09_num", "NumFmt", "SPECIFICATION SpecJudge\nCONSTANTS\n Mantissas <- Nothing\n Points <- Nothing\nCHECK_DEADLOCK FALSE\n",
            files={"cases.json": cases + [mut]}, workers=NCPU, timeout=3000)
    if not r.ok:
        raise MachineryError("NumFmt.tla (judge) failed:\n" + r.out[-3000:])
    tv = r.verdicts()
    if tv.get(len(cases) + 1, set()) - {"reported"} == {"OK"} or not tv.get(len(cases) + 1):
        raise MachineryError("binding self-test failed: NumFmt.tla accepted a corrupted token")
    bad = 0
    for k in range(1, len(cases) + 1):
        vs = tv.get(k, set()) - {"reported"}
        if not vs:
            raise MachineryError("no verdict for numeric case %d" % k)
        lit, v, tok, src, code = cmeta[k - 1]
        for vd in vs:
            if vd == "OK":
                continue
            if rep.violation(["num:" + lit, "num:" + lit + "@" + cw.vec_name(v)], vd,
                             {"property": "C09", "literal": lit, "options": v, "token": tok, "source": src, "result": code, "verdict": vd},
                             "literal %s variant=%s token `%s`: %s" % (lit, cw.vec_name(v), tok[:40], vd)):
                bad += 1
    cov = {"numeric_literals_checked": len(cases), "numeric_states": g.distinct + r.distinct,
           "numeric_samples": [{"literal": cmeta[k][0], "token": cmeta[k][2]} for k in (0, len(cmeta) // 2, len(cmeta) - 1)],
           "numeric_rule": "NumFmt.tla SpecGen enumerates mantissas x decimal-point positions x sign around the formatter's branch points; plus "
                           "folded expressions; each literal is compiled (verbose and compact) and the token read back in TLC: IC10 number "
                           "syntax, integers up to 2^53 exact, everything else within half a unit of the 16th significant digit"}
    return rep, cov, bad
