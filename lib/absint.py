"""Driving spec/IC10Abs.tla: all paths of an emitted program, data values forgotten (C06, C07)."""
import json
import os

import ic10load
from common import SPEC, MachineryError, run_tlc, workdir


def annotate_abs(prog):
    """adds out / br / al / jt to the loader's records (in place); prog already carries ent / cal / rv"""
    sig = ic10load.opsig()
    for k, i in enumerate(prog):
        op = i["op"]
        kinds = sig.get(op, [])
        if kinds and kinds[0] == "R":
            i["out"] = True
        if op.startswith("b") and kinds and kinds[-1] == "T":
            i["br"] = "abs"
            if op.endswith("al"):
                i["al"] = True
        if op.startswith("br") and op not in ("break",) and kinds and kinds[-1] == "N" and op in sig and op[2:] and op != "brdse" or op in ("brdse", "brdns"):
            i["br"] = "rel"
        if op == "jr" and i["a"] and i["a"][0][0] == "r":
            # jump table of a constant list with a run-time index:  jr t / select ; j end / select ; j end / ... / select
            tg = []
            p = k + 1
            while p < len(prog) and prog[p]["op"] == "select":
                tg.append(p)
                if p + 1 < len(prog) and prog[p + 1]["op"] == "j":
                    p += 2
                else:
                    break
            if tg:
                i["jt"] = tg
    return prog


def run_abs(name, progs, timeout=900):
    """progs: list of annotated programs.  Returns (verdicts per program: set of strings, TLC result)"""
    d = workdir(name)
    with open(os.path.join(d, "cases.json"), "w") as f:
        json.dump([{"prog": p} for p in progs], f)
    with open(os.path.join(d, "IC10Abs.cfg"), "w") as f:
        f.write("SPECIFICATION Spec\nINVARIANT DepthBound\nCHECK_DEADLOCK FALSE\n")
    r = run_tlc(os.path.join(SPEC, "IC10Abs.tla"), os.path.join(d, "IC10Abs.cfg"), d, workers=8, timeout=timeout, heap="4g")
    if not r.ok:
        raise MachineryError("IC10Abs.tla failed:\n" + r.out[-3000:])
    tv = r.verdicts()
    return [set(tv.get(k + 1, set())) - {"reported"} for k in range(len(progs))], r
