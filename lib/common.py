"""Shared harness pieces: paths, TLC runner, evidence writer, known findings, worker pool."""
import hashlib
import json
import os
import re
import shutil
import subprocess
import sys
import time

VERIF = os.path.abspath(os.path.join(os.path.dirname(os.path.abspath(__file__)), ".."))
REPO = os.environ.get("VERIF_REPO", "/repo")
SPEC = os.path.join(VERIF, "spec")
BUILD = os.path.join(SPEC, "build")
# runs against another tree (VERIF_REPO, detection experiments) get their own scratch and output directories
_ALT = ("alt_" + hashlib.sha1(REPO.encode()).hexdigest()[:8]) if REPO != "/repo" else ""
WORK = os.path.join(VERIF, ".work", _ALT) if _ALT else os.path.join(VERIF, ".work")
OUT = os.path.join(VERIF, "out", _ALT) if _ALT else os.path.join(VERIF, "out")
EVIDENCE = os.path.join(VERIF, "evidence")
PY = "/venv/bin/python"
TLA_JARS = "/opt/veriftools/tla/tla2tools.jar:/opt/veriftools/tla/CommunityModules-deps.jar"
GUARD = "PYTRAPIC_VERIF"
NCPU = os.cpu_count() or 4


class MachineryError(Exception):
    """Something in the verification machinery (not the code under test) failed: exit 2."""


def seed():
    try:
        return int(os.environ.get("VERIF_SEED", "0"))
    except ValueError:
        return 0


def workdir(name, clean=True):
    d = os.path.join(WORK, name)
    if clean and os.path.isdir(d):
        shutil.rmtree(d)
    os.makedirs(d, exist_ok=True)
    return d


def outdir(name):
    d = os.path.join(OUT, name)
    os.makedirs(d, exist_ok=True)
    return d


def sha(s):
    return hashlib.sha1(s.encode("utf-8") if isinstance(s, str) else s).hexdigest()[:12]


# ---------------------------------------------------------------------------------------
# TLC
# ---------------------------------------------------------------------------------------
class TlcResult:
    def __init__(self, rc, out, wall):
        self.rc = rc
        self.out = out
        self.wall = wall
        self.generated = 0
        self.distinct = 0
        self.depth = 0
        m = re.search(r"(\d+) states generated, (\d+) distinct states found", out)
        if m:
            self.generated, self.distinct = int(m.group(1)), int(m.group(2))
        m = re.search(r"depth of the complete state graph search is (\d+)", out)
        if m:
            self.depth = int(m.group(1))
        self.ok = "Model checking completed. No error has been found." in out
        self.invariant_violated = re.findall(r"Invariant (\S+) is violated", out)
        self.error_lines = [l for l in out.splitlines() if l.startswith("Error:")]
        self.prints = parse_prints(out)

    def verdicts(self, tag="VERDICT"):
        """{tid: set(verdict)} from <<"VERDICT", tid, v>> lines."""
        res = {}
        for p in self.prints:
            if isinstance(p, list) and len(p) >= 3 and p[0] == tag:
                res.setdefault(p[1], set()).add(p[2])
        return res

    def tagged(self, tag):
        return [p for p in self.prints if isinstance(p, list) and p and p[0] == tag]


def _parse_tla_value(s, i):
    """Parse a TLA+ value printed by TLC (tuples, sets, records, strings, ints, booleans)."""
    n = len(s)
    while i < n and s[i] in " \n\t":
        i += 1
    if s.startswith("<<", i):
        i += 2
        items = []
        while True:
            while i < n and s[i] in " \n\t,":
                i += 1
            if s.startswith(">>", i):
                return items, i + 2
            v, i = _parse_tla_value(s, i)
            items.append(v)
    if s[i] == "{":
        i += 1
        items = []
        while True:
            while i < n and s[i] in " \n\t,":
                i += 1
            if s[i] == "}":
                return {"__set__": items}, i + 1
            v, i = _parse_tla_value(s, i)
            items.append(v)
    if s[i] == "[":
        i += 1
        rec = {}
        while True:
            while i < n and s[i] in " \n\t,":
                i += 1
            if s[i] == "]":
                return rec, i + 1
            m = re.match(r"([A-Za-z_][A-Za-z0-9_]*)\s*\|->", s[i:])
            if not m:
                raise ValueError("bad record at %d: %r" % (i, s[i : i + 40]))
            i += m.end()
            v, i = _parse_tla_value(s, i)
            rec[m.group(1)] = v
    if s[i] == '"':
        j = i + 1
        buf = []
        while s[j] != '"':
            if s[j] == "\\":
                j += 1
                buf.append({"n": "\n", "t": "\t"}.get(s[j], s[j]))
            else:
                buf.append(s[j])
            j += 1
        return "".join(buf), j + 1
    m = re.match(r"-?\d+", s[i:])
    if m:
        return int(m.group(0)), i + m.end()
    m = re.match(r"(TRUE|FALSE)", s[i:])
    if m:
        return m.group(0) == "TRUE", i + m.end()
    m = re.match(r"[A-Za-z_][A-Za-z0-9_]*", s[i:])
    if m:
        return m.group(0), i + m.end()
    raise ValueError("cannot parse at %d: %r" % (i, s[i : i + 40]))


def parse_prints(out):
    """All top-level <<...>> values printed by PrintT (bracket matching: with several workers
    lines can interleave only at line granularity, values may span lines)."""
    res = []
    lines = out.splitlines()
    k = 0
    while k < len(lines):
        l = lines[k]
        if l.startswith("<<"):
            buf = l
            while buf.count("<<") > buf.count(">>") and k + 1 < len(lines):
                k += 1
                buf += "\n" + lines[k]
            try:
                v, _ = _parse_tla_value(buf, 0)
                res.append(v)
            except Exception:
                pass
        k += 1
    return res


def run_tlc(spec, cfg, cwd, workers=None, timeout=3600, extra=None, heap="8g", env=None, simulate=None, dfs=False):
    """Run TLC on spec (absolute path) with config cfg (absolute path) in directory cwd."""
    workers = workers or NCPU
    meta = os.path.join(cwd, "states")
    shutil.rmtree(meta, ignore_errors=True)
    cmd = ["java", "-XX:+UseParallelGC", "-Xss32m", "-XX:ThreadStackSize=32768", "-Xmx" + heap, "-DTLA-Library=" + SPEC]
    if dfs:
        cmd.append("-Dtlc2.tool.queue.IStateQueue=StateDeque")
    cmd += ["-cp", TLA_JARS, "tlc2.TLC", "-nowarning", "-workers", str(workers), "-metadir", meta,
            "-noGenerateSpecTE", "-config", cfg]
    if simulate:
        cmd += ["-simulate", simulate]
    if extra:
        cmd += list(extra)
    cmd.append(spec)
    t0 = time.time()
    e = dict(os.environ)
    if env:
        e.update(env)
    try:
        p = subprocess.run(cmd, cwd=cwd, stdout=subprocess.PIPE, stderr=subprocess.STDOUT, timeout=timeout, env=e)
        out = p.stdout.decode("utf-8", "replace")
        rc = p.returncode
    except subprocess.TimeoutExpired as ex:
        out = (ex.stdout or b"").decode("utf-8", "replace") + "\nTLC TIMEOUT\n"
        rc = -9
        subprocess.run(["pkill", "-f", "metadir " + meta], check=False)
    wall = time.time() - t0
    shutil.rmtree(meta, ignore_errors=True)
    with open(os.path.join(cwd, "tlc.out"), "w") as f:
        f.write(out)
    return TlcResult(rc, out, wall)


def ensure_build():
    """Export tables from the TLA+ modules for the Python side (spec is the source)."""
    os.makedirs(BUILD, exist_ok=True)
    target = os.path.join(BUILD, "opsig.json")
    src = os.path.join(SPEC, "IC10Grammar.tla")
    if os.path.exists(target) and os.path.getmtime(target) >= os.path.getmtime(src):
        return
    d = workdir("_build")
    with open(os.path.join(d, "Export.tla"), "w") as f:
        f.write('---- MODULE Export ----\nEXTENDS IC10Grammar\nASSUME ExportOpSig("%s")\nVARIABLE x\nInit == x = 0\nNext == x\' = x\n====\n' % target)
    with open(os.path.join(d, "Export.cfg"), "w") as f:
        f.write("INIT Init\nNEXT Next\n")
    r = run_tlc(os.path.join(d, "Export.tla"), os.path.join(d, "Export.cfg"), d, workers=1, timeout=120)
    if not r.ok or not os.path.exists(target):
        raise MachineryError("cannot export OpSig: " + r.out[-2000:])


# ---------------------------------------------------------------------------------------
# evidence, findings, verdict printing
# ---------------------------------------------------------------------------------------
def write_evidence(pid, tier, level, coverage, wall, violations=0, assumptions=None):
    if os.environ.get("VERIF_NO_EVIDENCE") == "1":  # detection runs against a mutated copy leave the evidence alone
        return None
    os.makedirs(EVIDENCE, exist_ok=True)
    ev = {
        "property_id": pid,
        "tier": tier,
        "seed": seed(),
        "level": level,
        "coverage": coverage,
        "assumptions": assumptions or [],
        "wall_s": round(wall, 2),
        "violations": violations,
    }
    with open(os.path.join(EVIDENCE, pid + ".json"), "w") as f:
        json.dump(ev, f, indent=1, sort_keys=True, default=str)
    return ev


_findings = None
_printed = set()


def known_findings():
    global _findings
    if _findings is None:
        p = os.path.join(VERIF, "known_findings.json")
        if os.path.exists(p):
            with open(p) as f:
                _findings = json.load(f)
        else:
            _findings = {"findings": [], "fixed": []}
    return _findings


class Reporter:
    """Collects violations for one check; separates listed known findings from new violations."""

    def __init__(self, pid):
        self.pid = pid
        self.violations = []  # (replay path, summary)
        self.known = {}  # finding id -> text
        self.entries = [f for f in known_findings().get("findings", []) if f["property"] == pid]

    def match(self, witness_keys, clause):
        """witness_keys: strings identifying the failing case (e.g. a matcher tag or case name)."""
        hits = []
        for f in self.entries:
            cl = list(f.get("clauses") or []) + ([f["clause"]] if f.get("clause") else [])
            if cl and "*" not in cl and clause not in cl:
                continue
            if any(re.fullmatch(w, k) for w in f.get("witness", []) for k in witness_keys):
                hits.append(f)
        # several listed findings can cover one failing case (a program with two of the shapes): the one that names the case
        # as its witness program is the one reported
        for f in hits:
            if any(k in f.get("cases", []) for k in witness_keys):
                return f
        return hits[0] if hits else None

    def violation(self, witness_keys, clause, replay_obj, summary):
        f = self.match(witness_keys, clause)
        if f is not None:
            self.known[f["id"]] = f["what"]
            return False
        d = outdir(self.pid)
        name = "replay_%s.json" % sha(json.dumps(replay_obj, sort_keys=True, default=str))
        path = os.path.join(d, name)
        with open(path, "w") as fh:
            json.dump(replay_obj, fh, indent=1, default=str)
        self.violations.append((path, summary))
        return True

    def witness_names(self):
        """plain case names mentioned by this property's listed findings (always kept in the corpus)"""
        out = set()
        for f in self.entries:
            out |= set(f.get("cases", []))
        return out

    def finish(self):
        for fid, what in sorted(self.known.items()):
            if fid in _printed:
                continue
            _printed.add(fid)
            print("KNOWN-FINDING: property=%s %s [%s]" % (self.pid, what, fid))
        for path, summary in self.violations[:40]:
            print("VIOLATION property=%s replay=%s %s" % (self.pid, path, summary))
        if len(self.violations) > 40:
            print("... and %d more violations of %s (replay files in %s)" % (len(self.violations) - 40, self.pid, outdir(self.pid)))
        sys.stdout.flush()
        return 1 if self.violations else 0
