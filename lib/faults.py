"""Fault-class inputs for compile_code (C10) and the supervised worker that runs them."""
import json
import os
import random
import signal
import time

import corpus

H = corpus.HEADER
GOOD = H + "def fa(xa):\n    return xa + 1\nwhile True:\n    d1.Setting = fa(d0.Setting) + fa(2)\n    yield_()\n"


def constexpr_src(body, call="kk(2)"):
    return H + "@constexpr\ndef kk(xa):\n" + "".join("    " + l + "\n" for l in body.split("\n")) + "d0.Setting = %s\n" % call


def fault_inputs(rnd, tier, repo_programs):
    """list of (class, name, src (str | dict), options (dict | None))"""
    out = []
    add = lambda c, n, s, o=None: out.append((c, n, s, o))
    # 1. prefixes of real programs (by line and by character)
    progs = [(n, s) for n, s in repo_programs if isinstance(s, str)]
    rnd.shuffle(progs)
    for n, s in progs[: (12 if tier == "thorough" else 4)]:
        lines = s.split("\n")
        for k in range(0, len(lines) + 1, 1 if tier == "thorough" else 2):
            add("prefix_lines", "%s:%d" % (n, k), "\n".join(lines[:k]))
        for k in sorted(rnd.sample(range(len(s)), min(len(s), 60 if tier == "thorough" else 15))):
            add("prefix_chars", "%s@%d" % (n, k), s[:k])
    # 2. token damage
    for k in range(40 if tier == "thorough" else 12):
        n, s = rnd.choice(progs)
        toks = s.split(" ")
        i = rnd.randrange(len(toks))
        kind = rnd.choice(["drop", "dup", "garbage", "swap"])
        if kind == "drop":
            toks = toks[:i] + toks[i + 1:]
        elif kind == "dup":
            toks = toks[:i] + [toks[i]] + toks[i:]
        elif kind == "garbage":
            toks[i] = rnd.choice(["$$", "§", ")", "lambda:", "0x", "'''", "\\", "\t\t", "@"])
        else:
            j = rnd.randrange(len(toks))
            toks[i], toks[j] = toks[j], toks[i]
        add("token_damage", "%s:%s:%d" % (n, kind, i), " ".join(toks))
    # 3. text that is not a program
    odd = {"nul": "d0.Setting = 1\x00\n", "surrogate": H + "x = '\ud800'\nd0.Setting = 1\n", "bom": "\ufeff" + GOOD, "crlf": GOOD.replace("\n", "\r\n"),
           "tabs": H + "if True:\n\td0.Setting = 1\n        d1.Setting = 2\n", "deep_paren": H + "d0.Setting = " + "(" * 300 + "1" + ")" * 300 + "\n",
           "deep_unary": H + "d0.Setting = " + "-" * 3000 + "1\n", "deep_binop": H + "d0.Setting = " + "+".join(["1"] * 3000) + "\n",
           "huge_int": H + "d0.Setting = " + "9" * 6000 + "\n", "huge_pow": H + "d0.Setting = 2 ** 100000\n", "huge_shift": H + "d0.Setting = 1 << 100000\n",
           "huge_float_pow": H + "d0.Setting = 10.0 ** 400\n", "div_zero": H + "d0.Setting = 1 / 0\n", "mod_zero": H + "d0.Setting = 5 % 0\n",
           "long_line": H + "d0.Setting = " + " + ".join("d1.Setting" for _ in range(400)) + "\n", "only_ws": "   \n\t\n", "only_comment": "# x\n",
           "binary": "".join(chr(rnd.randrange(1, 256)) for _ in range(200)), "emoji_ident": H + "温度 = d0.Temperature\nd1.Setting = 温度\n",
           "lua": "-- lua\nlocal x = 1\n", "lua_require": "require('x')\n", "nan_literal": H + "d0.Setting = float('nan')\n", "inf": H + "d0.Setting = 1e999\n",
           "many_lines": H + "".join("d%d.Setting = %d\n" % (i % 6, i) for i in range(600)), "str_operand": H + "d0.Setting = 'abc'\n", "none_operand": H + "d0.Setting = None\n"}
    for n, s in odd.items():
        add("odd_text", n, s)
    # 4. unsupported constructs
    uns = {"class": "class A:\n    pass\n", "lambda": "fz = lambda x: x\nd0.Setting = fz(1)\n", "try": "try:\n    d0.Setting = 1\nexcept Exception:\n    pass\n",
           "with": "with open('x') as fz:\n    pass\n", "import_os": "import os\nd0.Setting = os.getpid()\n", "listcomp": "d0.Setting = [i for i in range(3)][0]\n",
           "fstring": "d0.Setting = f'{1}'\n", "walrus": "if (nz := d0.Setting) > 1:\n    d1.Setting = nz\n", "async": "async def fz():\n    pass\n",
           "decorator": "@staticmethod\ndef fz():\n    return 1\nd0.Setting = fz()\n", "starargs": "def fz(*a):\n    return 1\nd0.Setting = fz(1)\n",
           "kwargs": "def fz(a=1):\n    return a\nd0.Setting = fz(a=2)\n", "tuple_assign": "a, b = 1, 2\nd0.Setting = a\n", "chained_cmp": "d0.Setting = 1 < d1.Setting < 3\n",
           "del": "x = 1\ndel x\n", "global_top": "global q\nq = 1\n", "nested_def": "def fa():\n    def fb():\n        return 1\n    return fb()\nd0.Setting = fa()\n",
           "while_else": "while d0.On:\n    pass\nelse:\n    d1.On = 1\n", "for_str": "for c in 'abc':\n    d0.Setting = 1\n", "dict": "x = {1: 2}\nd0.Setting = x[1]\n",
           "yield_stmt": "def g():\n    yield 1\n", "assert": "assert d0.On\n", "matmul": "d0.Setting = d1.Setting @ 2\n", "floordiv": "d0.Setting = d1.Setting // 2\n",
           "bitor": "d0.Setting = d1.Setting | 2\n", "invert": "d0.Setting = ~d1.Setting\n", "is": "d0.Setting = d1.Setting is None\n", "in": "d0.Setting = 1 in [1, 2]\n",
           "attr_chain": "d0.Setting.x.y = 1\n", "call_attr": "d0.Setting()\n", "subscript_dev": "d0[1][2] = 3\n", "slice": "x = [1,2,3]\nd0.Setting = x[0:2]\n",
           "return_top": "return 1\n", "break_top": "break\n", "continue_top": "continue\n", "nonlocal": "def fa():\n    nonlocal q\n", "print": "print('x')\n",
           "ifexp_dev": "x = d0 if 1 else d1\nx.Setting = 1\n", "aug_attr": "d0.Setting += 1\n", "multi_target": "a = b = 1\nd0.Setting = a\n", "annot": "a: int = 1\nd0.Setting = a\n",
           "write_builtin": "d0 = 1\n", "assign_call_dev": "x = Device(d0)\nx = Device(d1)\n", "ellipsis": "d0.Setting = ...\n", "bytes": "d0.Setting = b'x'\n", "complex": "d0.Setting = 1j\n"}
    for n, s in uns.items():
        add("unsupported", n, H + s)
    # 5. names, calls, recursion
    nm = {"undef_name": "d0.Setting = nothere\n", "undef_func": "d0.Setting = nofunc(1)\n", "recursion": "def fa(xa):\n    return fa(xa - 1) + 1\nd0.Setting = fa(3)\n",
          "mutual": "def fa(xa):\n    return fb(xa)\ndef fb(xa):\n    return fa(xa)\nd0.Setting = fa(3)\n", "arity_more": "def fa(xa):\n    return xa\nd0.Setting = fa(1, 2)\n",
          "arity_less": "def fa(xa, xb):\n    return xa\nd0.Setting = fa(1)\n", "dup_def": "def fa():\n    return 1\ndef fa():\n    return 2\nd0.Setting = fa()\n",
          "ret_struct": "def fa():\n    return d0\nx = fa()\n", "arg_struct": "def fa(x):\n    x.On = 1\nfa(d0)\n", "bad_attr": "d0.Setting = Furnace(d0).NoSuchThing\n",
          "bad_batch": "d0.Setting = Furnaces.Temperature\n", "bad_enum": "d0.Setting = LogicType.Nope\n", "hash_nonconst": "d0.Setting = HASH(d1.Setting)\n",
          "too_many_regs": "".join("v%d = d0.Setting + %d\n" % (i, i) for i in range(20)) + "d1.Setting = " + " + ".join("v%d" % i for i in range(20)) + "\n",
          "for_nonrange": "for i in d0:\n    pass\n", "range_4": "for i in range(1, 2, 3, 4):\n    d0.Setting = i\n", "range_0": "for i in range():\n    d0.Setting = i\n",
          "shadow_intrinsic": "def l(x):\n    return x\nd0.Setting = l(1)\n", "name_is_intrinsic": "j = 1\nd0.Setting = j\n", "intrinsic_wrong_args": "d0.Setting = max(1)\n",
          "stack_str": "stack['a'] = 1\n", "list_nonconst": "x = [d0.Setting, 1]\nd1.Setting = x[0]\n", "list_index_oob": "x = [1, 2]\nd1.Setting = x[5]\n"}
    for n, s in nm.items():
        add("names_calls", n, H + s)
    # 6. directive lines naming things that are not options
    for k, tag in enumerate(["__class__", "__dict__", "__init__", "no-__eq__", "__dataclass_fields__", "compact=1", "compact compact", "no-", "no_", ",,,", "__doc__",
                             "no-__class__", "__module__", "__annotations__", "__hash__", "inline_functions.x", " ", "compact,__class__", "__slots__", "no-__doc__"]):
        add("directive", "tag%d:%s" % (k, tag), "# pytrapic: %s\n" % tag + GOOD)
    add("directive", "marker_only", "# pytrapic:\n" + GOOD)
    add("directive", "many", "".join("# pytrapic: compact, no-compact\n" for _ in range(300)) + GOOD)
    # 7. constexpr bodies
    cx = {"ok": "return xa + 1", "raises": "raise ValueError('no')", "zerodiv": "return 1 / 0", "prints": "print('hello')\nreturn xa", "returns_obj": "return object()",
          "returns_nan": "return float('nan')", "returns_str": "return 'abc'", "returns_none": "return None", "returns_list": "return [1, 2]", "returns_huge": "return 10 ** 400",
          "loops": "while True:\n    pass", "sleeps": "import time\ntime.sleep(30)\nreturn 1", "exits": "import sys\nsys.exit(3)", "exit0": "import sys\nsys.exit(0)",
          "recurses": "return kk(xa)", "big_output": "print('x' * 10000000)\nreturn 1", "stderr": "import sys\nsys.stderr.write('e' * 100000)\nreturn 1",
          "forks": "import subprocess, sys\nsubprocess.Popen([sys.executable, '-c', 'import time; time.sleep(30)'])\nreturn 1",
          "open": "return open('/etc/passwd').read()", "eval": "return eval('1')", "exec": "exec('x=1')\nreturn 1", "import_fail": "import nosuchmodule\nreturn 1",
          "ignores_sigterm": "import signal\nsignal.signal(signal.SIGTERM, signal.SIG_IGN)\nwhile True:\n    pass",
          "ignores_sigint_sleeps": "import signal, time\nsignal.signal(signal.SIGINT, signal.SIG_IGN)\nsignal.signal(signal.SIGTERM, signal.SIG_IGN)\ntime.sleep(600)\nreturn 1",
          "unicode_out": "return '\\u2603'", "kills_self": "import os, signal\nos.kill(os.getpid(), signal.SIGKILL)"}
    for n, b in cx.items():
        add("constexpr", n, constexpr_src(b))
    add("constexpr", "bad_arg", constexpr_src("return xa", call="kk(d1.Setting)"))
    add("constexpr", "two_timeouts", H + "@constexpr\ndef k1():\n    while True:\n        pass\n@constexpr\ndef k2():\n    while True:\n        pass\nd0.Setting = k1()\nd1.Setting = k2()\n")
    add("constexpr", "emit_code_loop", H + "@emit_code\ndef ee():\n    while True:\n        pass\nee()\n")
    add("constexpr", "emit_code_bad", H + "@emit_code\ndef ee():\n    return 5\nee()\n")
    # 8. several modules
    lib_ok = H + "def bump(xa):\n    return xa + 1\n"
    add("modules", "ok", {"": H + "from library import ma\nd0.Setting = ma.bump(1) + ma.bump(d1.Setting)\n", "ma": lib_ok})
    add("modules", "lib_syntax", {"": H + "from library import ma\nd0.Setting = ma.bump(1)\n", "ma": "def bump(:\n"})
    add("modules", "lib_error", {"": H + "from library import ma\nd0.Setting = ma.bump(1) + ma.bump(2)\n", "ma": H + "def bump(xa):\n    return nothere(xa)\n"})
    add("modules", "missing_lib", {"": H + "from library import nothere\nd0.Setting = nothere.f(1)\n"})
    add("modules", "missing_attr", {"": H + "from library import ma\nd0.Setting = ma.nope(1)\n", "ma": lib_ok})
    add("modules", "no_main", {"ma": lib_ok})
    add("modules", "main_not_text", {"": None, "ma": lib_ok})
    add("modules", "lib_not_text", {"": GOOD, "ma": 5})
    add("modules", "empty_mapping", {})
    add("modules", "lib_long_error_line", {"": H + "from library import ma\nd0.Setting = 1\n", "ma": "\n" * 50 + "def f(:\n"})
    # 9. option values
    add("options", "dict_ok", GOOD, {"compact": True})
    add("options", "dict_unknown_key", GOOD, {"nonsense": True})
    add("options", "dict_string_value", GOOD, {"compact": "yes", "inline_functions": 0})
    add("options", "dict_none_value", GOOD, {"remove_labels": None})
    add("options", "none", GOOD, None)
    return out


class Hung(BaseException):
    pass


def _alarm(signum, frame):
    raise Hung()


def pid_state(pid):
    try:
        with open("/proc/%d/stat" % pid) as f:
            return f.read().rsplit(")", 1)[1].split()[0]
    except OSError:
        return None


def run_calls(job):
    """Run compile_code on every input of the job in this process, each under a watchdog; observe helper processes."""
    import subprocess as sp

    from stationeers_pytrapic.compiler import CompileOptions, compile_code

    try:
        from stationeers_pytrapic import _verif
    except Exception:
        _verif = None
    real_popen = sp.Popen
    spawned = []

    class Spy(real_popen):
        def __init__(self, *a, **k):
            super().__init__(*a, **k)
            spawned.append(self.pid)

    sp.Popen = Spy
    out = []
    signal.signal(signal.SIGALRM, _alarm)
    try:
        for cls, name, src, options in job["inputs"]:
            del spawned[:]
            if _verif is not None:
                _verif.reset()
            rec = {"cls": cls, "name": name, "events": [{"ev": "start"}]}
            t0 = time.time()
            signal.alarm(job.get("watchdog", 40))
            try:
                opts = options if (options is None or isinstance(options, dict)) else options
                res = compile_code(src, opts)
                rec["result"] = res
                rec["raised"] = None
            except Hung:
                rec["result"], rec["raised"] = None, "HUNG"
            except BaseException as e:
                rec["result"], rec["raised"] = None, "%s: %s" % (type(e).__name__, str(e)[:200])
            finally:
                signal.alarm(0)
            rec["wall_ms"] = int((time.time() - t0) * 1000)
            if _verif is not None and any(e["ev"] == "opts_effective" for e in _verif.events):
                rec["events"].append({"ev": "scan"})
            time.sleep(0.02)
            states = {p: pid_state(p) for p in spawned}
            left = [p for p, s in states.items() if s is not None and s != "Z"]
            zombies = [p for p, s in states.items() if s == "Z"]
            rec["spawned"] = len(spawned)
            rec["left_running"] = len(left)
            rec["zombies"] = len(zombies)
            for p in left:  # do not leak them ourselves
                try:
                    os.kill(p, signal.SIGKILL)
                except OSError:
                    pass
            for p in spawned:
                try:
                    os.waitpid(p, os.WNOHANG)
                except OSError:
                    pass
            try:
                json.dumps(rec["result"])
            except Exception:
                rec["result"] = json.loads(json.dumps(rec["result"], default=repr))
                rec["not_json"] = True
            out.append(rec)
    finally:
        sp.Popen = real_popen
    return out
