"""Driving spec/Equiv2.tla: pairs of emitted programs -> total verdict map."""
import json
import os
import re
from concurrent.futures import ThreadPoolExecutor

import ic10load
from common import SPEC, MachineryError, run_tlc, workdir

DOM4 = [[-1, 1], [0, 1], [1, 1], [2, 1]]
READ_OPS = {"l", "ls", "lb", "lbn", "lbs", "lbns", "lr", "sdse", "sdns", "bdse", "bdns", "rand", "rmap"}


def count_reads(prog):
    n = 0
    for i in prog:
        if i["op"] in READ_OPS or i["op"].startswith("bd") or i["op"].startswith("brd"):
            n += 1
        if i["op"] in ("get", "getd"):
            own = len(i["a"]) >= 2 and i["a"][1] == ["d", "db"]
            if not own:
                n += 1
            else:
                # the chip's own memory: initial contents are inputs too (one per address read before written);
                # the fixed-slot calling convention's cells 500..511 are always written first
                ad = i["a"][2] if len(i["a"]) >= 3 else None
                if ad and ad[0] == "v" and isinstance(ad[1], list) and len(ad[1]) == 2 and ad[1][1] == 1 and ad[1][0] >= 500:
                    pass
                elif ad and ad[0] == "r":
                    n += 3   # address computed at run time: several cells
                else:
                    n += 1
        if i["op"] in ("pop", "peek"):
            pass
    return n


def pick_dom(pa, pb, cap=300):
    r = max(count_reads(pa), count_reads(pb))
    for d in (4, 3, 2):
        if d ** r <= cap:
            return DOM4[:d] if d < 4 else DOM4
    return [[0, 1], [2, 1]] if r <= 12 else [[1, 1]]


def make_case(pa, pb, maxn=4, fuel=4096, dom=None, maxlevel=0):
    return {"pa": pa, "pb": pb, "dom": dom or pick_dom(pa, pb), "maxn": maxn, "fuel": fuel, "maxlevel": maxlevel}


CFG = "SPECIFICATION Spec\nCHECK_DEADLOCK FALSE\n"


_SPEC = {"name": "Equiv2"}


def _run_batch(d, cases, workers, timeout):
    os.makedirs(d, exist_ok=True)
    spec = _SPEC["name"]
    with open(os.path.join(d, "cases.json"), "w") as f:
        json.dump(cases, f)
    with open(os.path.join(d, spec + ".cfg"), "w") as f:
        f.write(CFG)
    return run_tlc(os.path.join(SPEC, spec + ".tla"), os.path.join(d, spec + ".cfg"), d, workers=workers,
                   timeout=timeout, heap="3g")


def run_cases(name, cases, batches=4, workers=4, timeout=240, single_timeout=40, spec="Equiv2"):
    _SPEC["name"] = spec
    try:
        return _run_cases(name, cases, batches, workers, timeout, single_timeout)
    finally:
        _SPEC["name"] = "Equiv2"


def _run_cases(name, cases, batches=4, workers=4, timeout=240, single_timeout=40):
    """cases: list of Equiv2 case records.  Returns (verdicts, stats): verdicts[k] is the set of
    verdict strings of case k (empty set = explored completely inside its bounds, no verdict);
    'INCONCLUSIVE:TIMEOUT' marks cases whose exploration did not finish."""
    root = workdir(name)
    n = len(cases)
    verdicts = [set() for _ in range(n)]
    stats = {"states": 0, "transitions": 0, "tlc_runs": 0, "timeouts": 0}
    if n == 0:
        return verdicts, stats
    batches = max(1, min(batches, n))
    groups = [list(range(b, n, batches)) for b in range(batches)]

    def job(gi):
        idx = groups[gi]
        r = _run_batch(os.path.join(root, "b%d" % gi), [cases[k] for k in idx], workers, timeout)
        return gi, r

    redo = []
    with ThreadPoolExecutor(batches) as ex:
        for gi, r in ex.map(job, range(batches)):
            stats["tlc_runs"] += 1
            idx = groups[gi]
            if r.ok:
                stats["states"] += r.distinct
                stats["transitions"] += r.generated
                for t, vs in r.verdicts().items():
                    verdicts[idx[t - 1]] |= {v for v in vs}
            elif r.rc == -9:
                redo += idx
            else:
                # an evaluation error inside TLC: rerun singly to find the case
                redo += idx
                stats.setdefault("batch_errors", []).append(r.out[-800:])

    def single(k):
        r = _run_batch(os.path.join(root, "s%d" % k), [cases[k]], 2, single_timeout)
        return k, r

    if redo:
        with ThreadPoolExecutor(8) as ex:
            for k, r in ex.map(single, redo):
                stats["tlc_runs"] += 1
                if r.ok:
                    stats["states"] += r.distinct
                    stats["transitions"] += r.generated
                    for t, vs in r.verdicts().items():
                        verdicts[k] |= set(vs)
                elif r.rc == -9:
                    stats["timeouts"] += 1
                    stats["states"] += r.distinct
                    verdicts[k] |= {"INCONCLUSIVE:TIMEOUT"} | {v for vs in r.verdicts().values() for v in vs}
                else:
                    raise MachineryError("TLC failed on case %d of %s:\n%s" % (k, name, r.out[-3000:]))
    return verdicts, stats


def is_violation(v):
    return not v.startswith("INCONCLUSIVE") and v != "reported"


def annotate_functions(prog, fnames, push_pop, finfo):
    """Monitor annotations (IC10Core.Monitor) for a program compiled with labels kept:
    ent on function entry labels, cal on jal / b*al lines that call a function, rv on the 'j ra' of each function.
    The body of a `for` over a constant list is a subroutine of its own (`jal lbfor.bodyN` ... `j ra` just before
    `lbfor.endN:`): its call and its return are annotated like a function without arguments and without a value."""
    cur = None
    for k, i in enumerate(prog):
        if i["op"] == "label" and i["lab"] in fnames:
            i["ent"] = True
            cur = i["lab"]
        m = re.match(r"\s*jal\s+(\S+)", i["ln"]) or re.match(r"\s*b[a-z]+al\s+.*\s(\S+)\s*(#.*)?$", i["ln"])
        if m and m.group(1) in fnames:
            fi = finfo[m.group(1)]
            i["cal"] = {"ar": fi["nargs"], "pp": bool(push_pop)}
        elif m and m.group(1).startswith("lbfor.body"):
            i["cal"] = {"ar": 0, "pp": False}
        mt = re.match(r"\s*j\s+(\S+)", i["ln"])
        if mt and mt.group(1) in fnames and cur is not None:
            i["tc"] = True                       # a tail call: `j f` inside the body of another function
        if i["op"] == "j" and re.match(r"\s*j\s+ra\b", i["ln"]):
            nxt = prog[k + 1] if k + 1 < len(prog) else None
            if nxt is not None and nxt["op"] == "label" and nxt.get("lab", "").startswith("lbfor.end"):
                i["rv"] = 0                      # return of a for-list body
            elif cur is not None:
                fi = finfo[cur]
                i["rv"] = 1 if (push_pop and fi["returns_value"]) else 0
    return prog
