"""Source-level checks: the dialect machine spec/PySrc.tla (built from Python's own ast by lib/pysrc.py) runs
in product with the IC10 machine over the text the real compiler emitted (spec/Equiv.tla)."""
import copy
import json
import time

import compilew as cw
import corpus
import equiv
import ic10load
import pysrc
from common import REPO, MachineryError, Reporter, known_findings, seed, write_evidence

import checks_lang as CL


def fam_defects():
    """witnesses of the source-level defects listed in known_findings.json (one shape each; the other families avoid these shapes)"""
    L = corpus._loop
    H = corpus.HEADER
    return [
        ("kd_alias_copy", L("vy = d0.Setting\nvx = vy\nvy += 1\nd1.Setting = vx")),
        ("kd_continue_in_for", L("acc = 0\nfor idx in range(3):\n    if idx == 1:\n        continue\n    acc = acc + idx\nd1.Setting = acc")),
        ("kd_loopvar_after_loop", L("for idx in range(3):\n    d1.Setting = idx\nd2.Setting = idx")),
        ("kd_for_rebinds_global", H + "idx = 7\nd0.Setting = idx\nwhile True:\n    for idx in range(3):\n        d1.Setting = idx\n    yield_()\n"),
        ("kd_runtime_negative_step", L("vs = 0 - 1 - d0.On\nfor idx in range(3, 0, vs):\n    d1.Setting = idx\nd2.On = 1")),
        ("kd_range_bound_reassigned", L("vn = 3\nfor idx in range(vn):\n    vn = vn - 1\n    d1.Setting = idx")),
    ]


def c01_vectors(tier):
    v = [cw.REF, cw.opts(inline_functions=True), cw.opts(inline_functions=True, remove_labels=True, compact=True),
         cw.opts(use_push_pop_functions=True)]
    if tier == "thorough":
        v += [cw.opts(tail_call_optimization=True), cw.opts(inline_functions=True, use_push_pop_functions=True),
              cw.opts(remove_labels=True, compact=True, use_push_pop_functions=True),
              cw.opts(inline_functions=True, remove_labels=True, compact=True, tail_call_optimization=True, use_push_pop_functions=True)]
    return v


def source_items(progs, vecs, maxn=4):
    """progs: (name, src).  Returns (items for Equiv.tla, outside: {name: reason}, compile errors)"""
    conv, outside = [], {}
    for n, s in progs:
        try:
            a, shapes = pysrc.convert(s)
            conv.append((n, s, a, shapes))
        except pysrc.Outside as e:
            outside[n] = str(e)
    jobs = [{"src": s, "options": v} for n, s, a, sh in conv for v in vecs]
    res = cw.compile_many(jobs)
    items, nerr = [], 0
    k = 0
    for n, s, a, sh in conv:
        for v in vecs:
            r = res[k]
            k += 1
            if r["raised"]:
                raise MachineryError("compile_code raised for %s: %s" % (n, r["raised"]))
            code = CL.code_of(r)
            if code is None:
                nerr += 1
                continue
            pb = ic10load.load(code)
            pre, _post = CL.h1_streams(r)
            shp = set(sh)
            if pre is not None and any(fn and fi["emitted"] and not fi["inlined"] and not fi["is_constexpr"] for fn, fi in pre["functions"].items()):
                shp.add("has_out_of_line_function")
            items.append({"name": n, "tag": cw.vec_name(v), "src": s, "b_text": code, "shapes": sorted(shp),
                          "case": {"ast": a, "pb": pb, "dom": equiv.pick_dom(pb, pb), "maxn": maxn, "fuel": 4096},
                          "sample": {"case": n, "variant": cw.vec_name(v), "source": s, "emitted": code}})
    return items, outside, nerr


def run_source_check(pid, tier, t0, items, rule, extra_cov, level="translation_validation", violation_filter=None):
    rep = Reporter(pid)
    cases = [it["case"] for it in items]
    mut = None
    for it in items:
        m = CL.mutant_of({"pb": it["case"]["pb"]})
        if m is not None:
            mut = dict(it["case"], pb=m["pb"])
            break
    if mut is None:
        raise MachineryError("no case with an externally visible write: nothing to bind to")
    to = 1500 if tier == "thorough" else 400
    verdicts, st = equiv.run_cases(pid, cases + [mut], batches=8, workers=2, timeout=to,
                                   single_timeout=150 if tier == "thorough" else 60, spec="Equiv")
    if not any(equiv.is_violation(v) for v in verdicts[len(cases)]):
        raise MachineryError("binding self-test failed: a corrupted artefact was accepted (%s)" % verdicts[len(cases)])
    nviol, inconclusive, complete = 0, {}, 0
    for k, it in enumerate(items):
        vs = verdicts[k]
        for v in vs:
            if v.startswith("INCONCLUSIVE"):
                inconclusive[v] = inconclusive.get(v, 0) + 1
        if not [v for v in vs if v.startswith("INCONCLUSIVE")]:
            complete += 1
        bad = [v for v in vs if equiv.is_violation(v)]
        if violation_filter:
            bad = [v for v in bad if violation_filter(v)]
        for v in sorted(bad):
            clause = v.split(":")[-1] if v.startswith(("MON_", "FAULT_")) else v
            if rep.violation([it["name"], it["name"] + "@" + it["tag"]] + ["shape:" + x for x in it.get("shapes", [])], clause,
                             {"property": pid, "case": it["name"], "variant": it["tag"], "verdict": v, "source": it["src"],
                              "emitted": it["b_text"], "tlc_case": it["case"]},
                             "case=%s variant=%s verdict=%s" % (it["name"], it["tag"], v)):
                nviol += 1
    cov = {"programs": len({it["name"] for it in items}), "disagreements_checked": len(items),
           "states": max(1, st["states"]), "transitions": max(1, st["transitions"]), "traces_validated_against_impl": len(items),
           "evaluations": len(items), "distinct_nontrivial": len({it["b_text"] for it in items}),
           "cases_explored_completely": complete, "inconclusive": inconclusive, "tlc_runs": st["tlc_runs"], "rule": rule,
           "samples": [it["sample"] for it in items[:2]], "binding_self_test": "mutant artefact rejected",
           "known_findings_hit": sorted(rep.known)}
    cov.update(extra_cov or {})
    write_evidence(pid, tier, level, cov, time.time() - t0, violations=nviol,
                   assumptions=CL.ASSUME_IC10 + ["the dialect semantics written down in spec/PySrc.tla (Python control flow and scoping, IC10 arithmetic; and/or bitwise and eager, "
                                                 "range bounds evaluated once)", "lib/pysrc.py (Python's own ast -> node table) and the game tables it reads for logic-type numbers and prefab hashes"])
    return rep.finish()


def check_c01(tier, t0):
    progs = [(n, s) for n, s, _ in CL.pick(CL.all_progs(), tier, 45)]
    progs += corpus.family("term") + fam_defects()
    rp = [(n, s) for n, s in corpus.repo_programs(REPO)]
    if tier == "quick":
        import random
        rp = random.Random(seed()).sample(rp, 12)
    progs += rp
    seen = set()
    progs = [(n, s) for n, s in progs if not (n in seen or seen.add(n))]
    import os
    import re as _re
    if os.environ.get("VERIF_ONLY"):
        progs = [(n, s) for n, s in progs if _re.search(os.environ["VERIF_ONLY"], n)]
    vecs = c01_vectors(tier)
    items, outside, nerr = source_items(progs, vecs)
    if len(items) < 40 and not os.environ.get("VERIF_ONLY"):
        raise MachineryError("only %d cases inside the dialect" % len(items))
    rule = ("program families (branches, loops, functions, register pressure, access forms), terminating programs, witnesses of listed "
            "defects and those of the repository's own programs that lib/pysrc.py accepts, each compiled under %d option vectors; "
            "case = PySrc.tla machine of the source x IC10 machine of the emitted text over all device inputs in the domain; "
            "distinct = distinct emitted texts" % len(vecs))
    return run_source_check("C01", tier, t0, items, rule,
                            {"outside_dialect": outside, "compile_errors_skipped": nerr, "option_vectors": [cw.vec_name(v) for v in vecs]})


CHECKS = {"C01": check_c01}
