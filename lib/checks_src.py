"""Source-level checks: the dialect machine spec/PySrc.tla (built from Python's own ast by lib/pysrc.py) runs
in product with the IC10 machine over the text the real compiler emitted (spec/Equiv.tla)."""
import copy
import json
import time

import compilew as cw
import corpus
import equiv
import ic10load
import pysrc
from common import REPO, MachineryError, Reporter, known_findings, seed, write_evidence

import checks_lang as CL


def fam_defects():
    """witnesses of the source-level defects listed in known_findings.json (one shape each; the other families avoid these shapes)"""
    L = corpus._loop
    H = corpus.HEADER
    return [
        ("kd_alias_copy", L("vy = d0.Setting\nvx = vy\nvy += 1\nd1.Setting = vx")),
        ("kd_continue_in_for", L("acc = 0\nfor idx in range(3):\n    if idx == 1:\n        continue\n    acc = acc + idx\nd1.Setting = acc")),
        ("kd_loopvar_after_loop", L("for idx in range(3):\n    d1.Setting = idx\nd2.Setting = idx")),
        ("kd_for_rebinds_global", H + "idx = 7\nd0.Setting = idx\nwhile True:\n    for idx in range(3):\n        d1.Setting = idx\n    yield_()\n"),
        ("kd_runtime_negative_step", L("vs = 0 - 1 - d0.On\nfor idx in range(3, 0, vs):\n    d1.Setting = idx\nd2.On = 1")),
        ("kd_alias_register_freed", H + "def fz(xn):\n    va = xn * 2\n    vb = va\n    d1.Setting = va\n    vc = xn + 5\n    vd = vc * 3\n    d3.Setting = vd + vc\n    return vb\n"
                                    "while True:\n    d2.Setting = fz(d0.Setting)\n    d4.Setting = fz(1)\n    yield_()\n"),
        ("kd_stack_vs_push", H + "def fa(xa):\n    d1.Setting = xa\ndef fb(xa):\n    fa(xa)\n    fa(xa + 1)\nwhile True:\n    stack[0] = d0.Setting + 7\n    fb(2)\n    d2.Setting = stack[0]\n    yield_()\n"),
        ("kd_range_bound_reassigned", L("vn = 3\nfor idx in range(vn):\n    vn = vn - 1\n    d1.Setting = idx")),
    ]


def c01_vectors(tier):
    v = [cw.REF, cw.opts(inline_functions=True), cw.opts(inline_functions=True, remove_labels=True, compact=True),
         cw.opts(use_push_pop_functions=True), cw.opts(inline_functions=True, tail_call_optimization=True)]
    if tier == "thorough":
        v += [cw.opts(tail_call_optimization=True), cw.opts(inline_functions=True, use_push_pop_functions=True),
              cw.opts(remove_labels=True, compact=True, use_push_pop_functions=True),
              cw.opts(inline_functions=True, remove_labels=True, compact=True, tail_call_optimization=True, use_push_pop_functions=True)]
    return v


def source_items(progs, vecs, maxn=4, adaptive=True):
    """progs: (name, src).  Returns (items for Equiv.tla, outside: {name: reason}, compile errors)"""
    conv, outside = [], {}
    for n, s in progs:
        try:
            a, shapes = pysrc.convert(s)
            conv.append((n, s, a, shapes))
        except pysrc.Outside as e:
            outside[n] = str(e)
    jobs = [{"src": s, "options": v} for n, s, a, sh in conv for v in vecs]
    res = cw.compile_many(jobs)
    items, nerr = [], 0
    k = 0
    for n, s, a, sh in conv:
        for v in vecs:
            r = res[k]
            k += 1
            if r["raised"]:
                raise MachineryError("compile_code raised for %s: %s" % (n, r["raised"]))
            code = CL.code_of(r)
            if code is None:
                nerr += 1
                continue
            pb = ic10load.load(code)
            # effect budget: at least one full round of the main loop (every effect instruction of the text once, calls repeat some)
            neff = sum(1 for i in pb if i["op"] in ("s", "ss", "sb", "sbn", "sbs", "yield", "sleep", "putd", "clr", "clrd") or (i["op"] == "put" and i["a"] and i["a"][0] != ["d", "db"]))
            maxn_case = max(maxn, min(12, 2 * neff + 2)) if adaptive else maxn
            pre, _post = CL.h1_streams(r)
            shp = set(sh)
            if pre is not None and any(fn and fi["emitted"] and not fi["inlined"] and not fi["is_constexpr"] for fn, fi in pre["functions"].items()):
                shp.add("has_out_of_line_function")
            if any(i["op"] == "push" for i in pb) and any(nd["kind"] in ("mem", "memwrite") for nd in a["nodes"]):
                shp.add("own_stack_used_while_transpiler_pushes")
            items.append({"name": n, "tag": cw.vec_name(v), "src": s, "b_text": code, "shapes": sorted(shp),
                          "case": {"ast": a, "pb": pb, "dom": equiv.pick_dom(pb, pb), "maxn": maxn_case, "fuel": 4096},
                          "sample": {"case": n, "variant": cw.vec_name(v), "source": s, "emitted": code}})
    return items, outside, nerr


PY_SPELLINGS = {"None", "True", "False", "nan", "inf", "-inf", "NaN", "Ellipsis"}


def run_source_check(pid, tier, t0, items, rule, extra_cov, level="translation_validation", violation_filter=None):
    rep = Reporter(pid)
    cases = [it["case"] for it in items]
    # binding self-test: corrupted artefacts (first write in the text gets another value) must be rejected; the first
    # write in the text may lie beyond a case's effect budget, so a few cases are corrupted and one rejection is demanded
    muts, seen_names = [], set()
    for it in items:
        if it["name"] in seen_names:
            continue
        m = CL.mutant_of({"pb": it["case"]["pb"]})
        if m is not None:
            seen_names.add(it["name"])
            muts.append(dict(it["case"], pb=m["pb"]))
        if len(muts) >= 6:
            break
    if not muts:
        raise MachineryError("no case with an externally visible write: nothing to bind to")
    to = 1500 if tier == "thorough" else 400
    verdicts, st = equiv.run_cases(pid, cases + muts, batches=8, workers=2, timeout=to,
                                   single_timeout=150 if tier == "thorough" else 60, spec="Equiv")
    if not any(equiv.is_violation(v) for vs in verdicts[len(cases):] for v in vs):
        raise MachineryError("binding self-test failed: corrupted artefacts were accepted (%s)" % verdicts[len(cases):])
    nviol, inconclusive, complete = 0, {}, 0
    for k, it in enumerate(items):
        vs = verdicts[k]
        for v in vs:
            if v.startswith("INCONCLUSIVE"):
                inconclusive[v] = inconclusive.get(v, 0) + 1
        if not [v for v in vs if v.startswith("INCONCLUSIVE")]:
            complete += 1
        bad = [v for v in vs if equiv.is_violation(v)]
        if violation_filter:
            bad = [v for v in bad if violation_filter(v)]
        # the loader could not resolve an operand of the emitted text: inconclusive in general (names the loader does not know) -
        # but an operand spelled the way Python prints a non-number (None, True, nan ...) is a value that was never computed
        if "INCONCLUSIVE:B:UNRESOLVED_OPERAND" in vs:
            py = sorted({t for l in it["b_text"].split("\n") for t in ic10load.tokenize(l)[1:] if t in PY_SPELLINGS})
            if py:
                bad.append("PYTHON_VALUE_IN_EMITTED_TEXT:" + ",".join(py))
            ud = CL.undefined_jump_targets(it["b_text"])
            if ud:
                bad.append("JUMP_TO_UNDEFINED_LABEL:" + ",".join(ud))
        for v in sorted(bad):
            clause = v.split(":")[-1] if v.startswith(("MON_", "FAULT_")) else v.split(":")[0] if v.startswith(("PYTHON_VALUE", "JUMP_TO_UNDEFINED")) else v
            if rep.violation([it["name"], it["name"] + "@" + it["tag"]] + ["shape:" + x for x in it.get("shapes", [])]
                             + ["shape:%s@%s" % (x, it["tag"]) for x in it.get("shapes", [])], clause,
                             {"property": pid, "case": it["name"], "variant": it["tag"], "verdict": v, "source": it["src"],
                              "emitted": it["b_text"], "tlc_case": it["case"]},
                             "case=%s variant=%s verdict=%s" % (it["name"], it["tag"], v)):
                nviol += 1
    cov = {"programs": len({it["name"] for it in items}), "disagreements_checked": len(items),
           "states": max(1, st["states"]), "transitions": max(1, st["transitions"]), "traces_validated_against_impl": len(items),
           "evaluations": len(items), "distinct_nontrivial": len({it["b_text"] for it in items}),
           "cases_explored_completely": complete, "inconclusive": inconclusive, "tlc_runs": st["tlc_runs"], "rule": rule,
           "samples": [it["sample"] for it in items[:2]], "binding_self_test": "mutant artefact rejected",
           "known_findings_hit": sorted(rep.known)}
    cov.update(extra_cov or {})
    write_evidence(pid, tier, level, cov, time.time() - t0, violations=nviol,
                   assumptions=CL.ASSUME_IC10 + ["the dialect semantics written down in spec/PySrc.tla (Python control flow and scoping, IC10 arithmetic; and/or bitwise and eager, "
                                                 "range bounds evaluated once)", "lib/pysrc.py (Python's own ast -> node table) and the game tables it reads for logic-type numbers and prefab hashes"])
    return rep.finish()


def check_c01(tier, t0):
    progs = [(n, s) for n, s, _ in CL.pick(CL.all_progs(), tier, 45)]
    progs += corpus.family("term") + fam_defects()
    rp = [(n, s) for n, s in corpus.repo_programs(REPO)]
    if tier == "quick":
        import random
        rp = random.Random(seed()).sample(rp, 12)
    progs += rp
    seen = set()
    progs = [(n, s) for n, s in progs if not (n in seen or seen.add(n))]
    import os
    import re as _re
    if os.environ.get("VERIF_ONLY"):
        progs = [(n, s) for n, s in progs if _re.search(os.environ["VERIF_ONLY"], n)]
    vecs = c01_vectors(tier)
    items, outside, nerr = source_items(progs, vecs)
    # programs drawn from the grammar ProgGen.tla (TLC -simulate, seeded; thorough: also every program of a small configuration)
    import proggen
    gen, gr = proggen.generate("C01_gen", 300 if tier == "thorough" else 36, seed(), max_lines=8, max_depth=2, nfuncs=1)
    gprogs = [(n, s) for n, s, _ in gen]
    if tier == "thorough":
        ex, er = proggen.generate("C01_genx", 0, seed(), max_lines=2, max_depth=1, nfuncs=0, exhaustive=True, alphabet=proggen.TINY)
        xprogs = [(n.replace("pg_", "pgx_"), s) for n, s, _ in ex]
    else:
        xprogs = []
    if not os.environ.get("VERIF_ONLY") or _re.search(os.environ["VERIF_ONLY"], "pg_"):
        gitems, goutside, gerr = source_items(gprogs, vecs[:2] if tier == "quick" else vecs[:4], maxn=3)
        items += gitems
        outside.update(goutside)
        nerr += gerr
        if xprogs:      # every program of the tiny configuration, under the reference vector and the most transforming one
            gitems, goutside, gerr = source_items(xprogs, [vecs[0], vecs[2]], maxn=3)
            items += gitems
            outside.update(goutside)
            nerr += gerr
            gprogs += xprogs
    if len(items) < 40 and not os.environ.get("VERIF_ONLY"):
        raise MachineryError("only %d cases inside the dialect" % len(items))
    rule = ("program families (branches, loops, functions, register pressure, access forms), terminating programs, witnesses of listed "
            "defects and those of the repository's own programs that lib/pysrc.py accepts, each compiled under %d option vectors; "
            "case = PySrc.tla machine of the source x IC10 machine of the emitted text over all device inputs in the domain; "
            "distinct = distinct emitted texts" % len(vecs))
    return run_source_check("C01", tier, t0, items, rule + "; plus programs generated by ProgGen.tla (grammar as a state machine: %d drawn by TLC -simulate%s)" %
                            (len(gen), ", all programs of the small exhaustive configuration" if tier == "thorough" else ""),
                            {"generated_programs": len(gprogs), "outside_dialect": outside, "compile_errors_skipped": nerr, "option_vectors": [cw.vec_name(v) for v in vecs]})


CHECKS = {"C01": check_c01}


# ---------------------------------------------------------------------------------------
# C03 compile-time evaluation
# ---------------------------------------------------------------------------------------
PYOP = {"add": "+", "sub": "-", "mul": "*", "div": "/", "pow": "**", "mod": "%", "and": "and", "or": "or", "xor": "^", "band": "&",
        "sll": "<<", "srl": ">>", "eq": "==", "ne": "!=", "lt": "<", "le": "<=", "gt": ">", "ge": ">="}


def lit_of(v):
    from fractions import Fraction
    fr = Fraction(v[0], v[1])
    if fr.denominator == 1:
        s = str(fr.numerator)
    else:
        s = repr(float(fr))
        assert Fraction(s) == fr, "grid value must be a finite decimal"
    return "(%s)" % s if fr < 0 else s


def expr_of(p):
    if p["op"] == "neg":
        return "-%s" % lit_of(p["a"])
    if p["op"] == "not":
        return "not %s" % lit_of(p["a"])
    return "%s %s %s" % (lit_of(p["a"]), PYOP[p["op"]], lit_of(p["b"]))


def fold_shapes():
    """propagation shapes: the folded value travels through variables, calls, returns, lists, conditions"""
    L, H = corpus._loop, corpus.HEADER
    return [
        ("fs_var_chain", L("ka = 3\nkb = ka * 4 + 1\nkc = kb - ka\nd0.Setting = kc\nd1.Setting = kb / 2")),
        ("fs_arg_const", H + "def fa(xa):\n    return xa * 2 + 1\nwhile True:\n    d0.Setting = fa(3)\n    yield_()\n"),
        ("fs_arg_const_twice", H + "def fa(xa):\n    return xa * 2 + 1\nwhile True:\n    d0.Setting = fa(3)\n    d1.Setting = fa(5) + fa(d0.Setting)\n    yield_()\n"),
        ("fs_return_const", H + "def fk():\n    return 6 * 7 - 2\nwhile True:\n    d0.Setting = fk() + 1\n    yield_()\n"),
        ("fs_list_const_index", L("vals = [3, 5, 9]\nd0.Setting = vals[1] + vals[2] * 2\nd1.Setting = vals[0]")),
        ("fs_if_const", L("if 3 > 2:\n    d0.Setting = 1\nelse:\n    d0.Setting = 2\nif 2 - 2:\n    d1.Setting = 3\nelse:\n    d1.Setting = 4")),
        ("fs_if_not_const", L("if not 0:\n    d0.Setting = 1\nif not 3:\n    d0.Setting = 2\nelse:\n    d1.Setting = 5")),
        ("fs_overwritten_not_folded", L("ka = 3\nka = ka + d1.Setting\nd0.Setting = ka * 2")),
        ("fs_assigned_in_loop", L("ka = 1\nfor idx in range(3):\n    ka = ka * 2\nd0.Setting = ka + 1")),
        ("fs_global_changed_by_call", H + "ka = 3\ndef fm():\n    global ka\n    ka = 5\nwhile True:\n    d0.Setting = ka\n    fm()\n    d1.Setting = ka * 2\n    yield_()\n"),
        ("fs_cond_expr", L("d0.Setting = 7 if 2 > 1 else 9\nkb = 4 if 0 else 6\nd1.Setting = kb + 1")),
        ("fs_bool_ops", L("d0.Setting = (3 > 2) and (2 > 5)\nd1.Setting = (1 == 1) or (2 < 1)\nd2.Setting = not (3 > 2)")),
        ("fs_hash_compare", L('d0.Setting = HASH("abc") == HASH("abc")\nd1.Setting = HASH("abc") != HASH("abd")')),
        ("fs_hash_vs_number", L('if HASH("Furnace") == %d:\n    d0.Setting = 1\nelse:\n    d0.Setting = 2\nd1.Setting = (HASH("Furnace") != %d) + 2 * (%d == HASH("Furnace"))' % ((pysrc.crc("Furnace"),) * 3))),
        ("fs_str_arith", L('d2.Setting = STR("Hi") + 1\nd3.Setting = (STR("Hi") == 18537) + (STR("A") * 2)')),
        ("fs_mixed", L("ka = 8\nva = d0.Setting\nd1.Setting = va + ka * 2 - 16 / ka\nd2.Setting = (ka > 3) + va")),
        ("fs_math_exact", L("d0.Setting = sqrt(9) + cos(0) + sin(0) + exp(0) + log(1)\nd1.Setting = sqrt(2.25)")),
        ("fs_nested_calls", H + "def fa(xa):\n    return xa + 1\ndef fb(xa):\n    return fa(xa) * fa(2)\nwhile True:\n    d0.Setting = fb(3)\n    d1.Setting = fb(d0.Setting)\n    yield_()\n"),
    ]


def guarded_pair(p):
    """the same computation with literal operands and with operands loaded from devices, both guarded so that only the
    environment in which the devices hold exactly these numbers produces an effect (Equiv2 shares one environment)"""
    a, b = lit_of(p["a"]), lit_of(p["b"])
    unary = p["op"] in ("neg", "not")
    head = "va = d0.Setting\n" + ("" if unary else "vb = d1.Setting\n")
    guard = "if va == %s:\n" % a + ("    d2.Setting = %s\n" if unary else "    if vb == %s:\n        d2.Setting = %%s\n" % b)
    if unary:
        dyn = ("-va" if p["op"] == "neg" else "not va")
    else:
        dyn = "va %s vb" % PYOP[p["op"]]
    const = corpus._loop(head + guard % expr_of(p))
    dynp = corpus._loop(head + guard % dyn)
    return const, dynp


def check_c03(tier, t0):
    import random
    from fractions import Fraction

    import checks_text as CT

    rep = Reporter("C03")
    # ---- part 1: the grid, enumerated by TLC ------------------------------------------------
    g = CT.tlc("C03_grid", "FoldGrid", "SPECIFICATION SpecGen\nINVARIANT ExportGrid\nCHECK_DEADLOCK FALSE\n", workers=4, timeout=900)
    if not g.ok:
        raise MachineryError("FoldGrid.tla (grid) failed:\n" + g.out[-2000:])
    pts = [json.loads(p[1]) for p in g.tagged("POINT")]
    pts.sort(key=lambda p: json.dumps(p, sort_keys=True))
    if len(pts) < 1000:
        raise MachineryError("grid has only %d points" % len(pts))
    rnd = random.Random(seed() + 3)
    if tier == "quick":
        by_op = {}
        for p in pts:
            by_op.setdefault(p["op"], []).append(p)
        pts = [p for op, ps in sorted(by_op.items()) for p in rnd.sample(ps, min(len(ps), 70))]
    per = 15
    jobs, groups = [], []
    for k in range(0, len(pts), per):
        grp = pts[k:k + per]
        jobs.append({"src": corpus.HEADER + "".join("d0.Setting = %s\n" % expr_of(p) for p in grp), "options": cw.REF})
        groups.append(grp)
    res = cw.compile_many(jobs)
    cases, cmeta = [], []
    nerr = 0
    for grp, r, j in zip(groups, res, jobs):
        code = CL.code_of(r)
        if code is None:
            # one expression the compiler rejects (e.g. division by zero) rejects the whole program: compile singly
            single = cw.compile_many([{"src": corpus.HEADER + "d0.Setting = %s\n" % expr_of(p), "options": cw.REF} for p in grp])
            pieces = [(p, CL.code_of(x)) for p, x in zip(grp, single)]
        else:
            pieces = None
        if pieces is None:
            prog = ic10load.load(code)
            stores = [k for k, i in enumerate(prog) if i["op"] == "s"]
            if len(stores) != len(grp):
                raise MachineryError("cannot align grid program with its output:\n%s\n%s" % (j["src"], code))
            prev = -1
            for p, k in zip(grp, stores):
                i = prog[k]
                folded = (k == prev + 1) and i["a"][2][0] == "v"
                cases.append(dict(p, got=i["a"][2][1] if folded else ["dyn"]))
                cmeta.append((p, code.split("\n")[prev + 1:k + 1]))
                prev = k
        else:
            for p, c1 in pieces:
                if c1 is None:
                    nerr += 1
                    continue
                prog = ic10load.load(c1)
                i = prog[-1]
                folded = len(prog) == 1 and i["op"] == "s" and i["a"][2][0] == "v"
                cases.append(dict(p, got=i["a"][2][1] if folded else ["dyn"]))
                cmeta.append((p, c1.split("\n")))
    mut = dict(next(c for c in cases if c["got"] != ["dyn"] and c["op"] == "add"))
    mut["got"] = [mut["got"][0] + 1, mut["got"][1]] if len(mut["got"]) == 2 else [7, 1]
    r = CT.tlc("C03_judge", "FoldGrid", "SPECIFICATION SpecJudge\nCHECK_DEADLOCK FALSE\n", files={"cases.json": cases + [mut]}, workers=8, timeout=1800)
    if not r.ok:
        raise MachineryError("FoldGrid.tla (judge) failed:\n" + r.out[-3000:])
    tv = r.verdicts()
    if "FOLDED_VALUE_DIFFERS" not in tv.get(len(cases) + 1, set()):
        raise MachineryError("binding self-test failed: FoldGrid.tla accepted a corrupted literal (%s)" % tv.get(len(cases) + 1))
    nfolded = nfrac = ninc = 0
    bad = 0
    for k in range(1, len(cases) + 1):
        vs = tv.get(k, set()) - {"reported"}
        if not vs:
            raise MachineryError("no verdict for grid point %d" % k)
        p, lines = cmeta[k - 1]
        for vd in vs:
            if vd == "NOT_FOLDED":
                continue
            nfolded += 1
            if vd.startswith("INCONCLUSIVE"):
                ninc += 1
                continue
            if vd == "INEXACT_NEEDS_ROUNDING_ORACLE":
                # the exact result is not a double: compare to 15 significant digits with exact fractions (oracle=fraction)
                nfrac += 1
                ok = False
                gtok = ic10load.tokenize(lines[-1])[-1] if lines else ""
                gv = ic10load.number_value(gtok)
                if gv is not None:
                    try:
                        ev = eval_fraction(p)
                        ok = ev is not None and (abs(gv - ev) <= abs(ev) * Fraction(1, 10**15))
                    except ZeroDivisionError:
                        ok = True
                if ok:
                    continue
                vd = "FOLDED_VALUE_DIFFERS"
            if vd == "OK":
                continue
            if rep.violation(["grid:" + p["op"], "grid:%s:%s" % (p["op"], expr_of(p))], vd,
                             {"property": "C03", "expression": expr_of(p), "point": p, "emitted": lines, "verdict": vd},
                             "expression `%s` emitted `%s`: %s" % (expr_of(p), " / ".join(x.strip() for x in lines)[:80], vd)):
                bad += 1
    # ---- part 2: propagation shapes against the source machine ----------------------------------
    vecs = [cw.REF, cw.opts(inline_functions=True), cw.opts(inline_functions=True, remove_labels=True, compact=True)]
    items, outside, nerr2 = source_items(fold_shapes(), vecs)
    # ---- part 3: literal operands vs operands loaded from devices --------------------------------
    sample = [p for p in pts if p["op"] not in ("pow",)]
    rnd.shuffle(sample)
    by_op = {}
    for p in sample:
        by_op.setdefault(p["op"], []).append(p)
    chosen = [p for op, ps in sorted(by_op.items()) for p in ps[: (6 if tier == "thorough" else 2)]]
    pj = []
    for p in chosen:
        c, d = guarded_pair(p)
        pj += [{"src": c, "options": cw.REF}, {"src": d, "options": cw.REF}]
    pres = cw.compile_many(pj)
    pair_items = []
    for k, p in enumerate(chosen):
        ca, cb = CL.code_of(pres[2 * k]), CL.code_of(pres[2 * k + 1])
        if ca is None or cb is None:
            continue
        dom = [p["a"]] + ([p["b"]] if p["b"] != p["a"] else []) + [[7, 1]]
        pair_items.append({"name": "pair_" + p["op"], "tag": expr_of(p), "src": pj[2 * k]["src"], "a_text": ca, "b_text": cb,
                           "case": equiv.make_case(ic10load.load(ca), ic10load.load(cb), dom=dom),
                           "sample": {"const_program": pj[2 * k]["src"], "dynamic_program": pj[2 * k + 1]["src"]}})
    pv, pst = equiv.run_cases("C03_pairs", [it["case"] for it in pair_items], batches=8, workers=2, timeout=600, single_timeout=60)
    for it, vs in zip(pair_items, pv):
        for v in sorted(vs):
            if equiv.is_violation(v):
                if rep.violation([it["name"], "grid:" + it["name"][5:], "pair:" + it["tag"]], v,
                                 {"property": "C03", "expression": it["tag"], "const_program": it["src"], "const_emitted": it["a_text"],
                                  "dynamic_emitted": it["b_text"], "verdict": v},
                                 "`%s`: literal operands and device-loaded operands behave differently: %s" % (it["tag"], v)):
                    bad += 1
    rc2 = 0
    extra = {"grid_points_compiled": len(cases), "grid_points_folded_by_the_compiler": nfolded, "oracle_fraction": nfrac,
             "grid_inconclusive": ninc, "grid_states": g.distinct + r.distinct, "const_vs_dynamic_pairs": len(pair_items),
             "pair_states": pst["states"], "compile_errors_skipped": nerr + nerr2, "outside_dialect": outside,
             "grid_sample": [{"expression": expr_of(cmeta[k][0]), "emitted": cmeta[k][1]} for k in (0, len(cmeta) // 2)]}
    rule = ("(1) FoldGrid.tla enumerates operator x operand-class points; each is compiled as `d0.Setting = a OP b`; when the compiler "
            "printed a literal TLC compares it with the IC10 ALU applied to the operands (exact for dyadic results, 15 digits with "
            "exact fractions otherwise); (2) propagation shapes (variables, arguments, returns, lists, conditions, globals changed by "
            "calls) run as source machine x emitted text; (3) guarded pairs literal operands vs device-loaded operands run as two "
            "IC10 machines over one environment")
    rc = run_source_check_merge("C03", tier, t0, items, rule, extra, rep, bad)
    return rc


def eval_fraction(p):
    from fractions import Fraction
    a, b = Fraction(*p["a"]), Fraction(*p["b"])
    op = p["op"]
    if op == "div":
        return a / b
    if op == "pow":
        return a ** int(b) if b.denominator == 1 else None
    if op == "mul":
        return a * b
    if op == "add":
        return a + b
    if op == "sub":
        return a - b
    return None


def run_source_check_merge(pid, tier, t0, items, rule, extra, rep0, bad0):
    """run_source_check, with violations already collected by rep0 merged into the result"""
    rc = run_source_check(pid, tier, t0, items, rule, dict(extra, static_violations=bad0))
    rc0 = rep0.finish()
    if (bad0 or rep0.known) and os.environ.get("VERIF_NO_EVIDENCE") != "1":
        p = os.path.join(os.path.dirname(os.path.abspath(__file__)), "..", "evidence", pid + ".json")
        ev = json.load(open(p))
        ev["violations"] = ev.get("violations", 0) + bad0
        ev["coverage"]["known_findings_hit"] = sorted(set(ev["coverage"].get("known_findings_hit", [])) | set(rep0.known))
        json.dump(ev, open(p, "w"), indent=1, sort_keys=True)
    return 1 if (rc or rc0) else 0


import os  # noqa: E402

CHECKS["C03"] = check_c03


# ---------------------------------------------------------------------------------------
# C12 constexpr
# ---------------------------------------------------------------------------------------
CX_TIMEOUT = "Timeout during evaluating constexpr"
CX_TEMPLATES = {
    "k1": ("def k1(xa, xb):\n    return xa * 256 + xb\n", ["k1(3, 4)", "k1(0, 7)", "k1(12, 255)"]),
    "k2": ("def k2(xa):\n    if xa > 2:\n        return xa * 2\n    return xa - 1\n", ["k2(5)", "k2(2)", "k2(0)"]),
    "k3": ("def k3(xn):\n    acc = 0\n    for ii in range(xn):\n        acc += ii * ii\n    return acc\n", ["k3(4)", "k3(0)", "k3(6)"]),
    "k4": ("def k4(xa, xb):\n    return (xa << 4) | (xb & 15)\n", ["k4(3, 21)", "k4(1, 0)"]),
    "k5": ("def k1(xa, xb):\n    return xa * 256 + xb\n@constexpr\ndef k5(xa):\n    return k1(xa, 3) + 1\n", ["k5(2)", "k5(7)"]),
    "k6": ("def k6(xa):\n    return xa / 4 + 0.5\n", ["k6(3)", "k6(8)"]),
    "k7": ("def k7(xa, xb):\n    return xa > xb\n", ["k7(3, 2)", "k7(1, 2)"]),
    "k8": ("def k8(xa):\n    nn = 0\n    while True:\n        nn = nn + 1\n        if nn * nn > xa:\n            break\n    return nn\n", ["k8(10)", "k8(0)"]),
    "k9": ("def k9(xa):\n    return (xa * 7) // 2 + xa % 3\n", ["k9(5)", "k9(8)"]),
}


def cx_programs():
    """template x call position; small values (everything fits the source machine's numbers)"""
    H = corpus.HEADER
    out = []
    for tn, (tdef, calls) in sorted(CX_TEMPLATES.items()):
        d = "@constexpr\n" + tdef
        for ci, K in enumerate(calls):
            base = "%s_%d" % (tn, ci)
            pos = {
                "stmt": H + d + "while True:\n    d0.Setting = %s\n    yield_()\n" % K,
                "operand": H + d + "while True:\n    va = d1.Setting\n    d0.Setting = va + %s * 2\n    yield_()\n" % K,
                "argument": H + d + "def fa(xa):\n    d2.Setting = xa\n    return xa + 1\nwhile True:\n    d0.Setting = fa(%s) + fa(d1.Setting)\n    yield_()\n" % K,
                "in_function": H + d + "def fa(xa):\n    return xa + %s\nwhile True:\n    d0.Setting = fa(d1.Setting) + fa(1)\n    yield_()\n" % K,
                "in_inlined": H + d + "def fa(xa):\n    return xa - %s\nwhile True:\n    d0.Setting = fa(d1.Setting)\n    yield_()\n" % K,
                "condition": H + d + "while True:\n    if d1.Setting > %s:\n        d0.Setting = 1\n    else:\n        d0.Setting = 2\n    yield_()\n" % K,
                "assigned": H + d + "kv = %s\nwhile True:\n    d0.Setting = kv + d1.Setting\n    yield_()\n" % K,
            }
            if ci == 0:
                # defined in a library module: called from the main file (qualified) / from inside the library itself
                pos["library"] = {"": H + "from library import ml\nwhile True:\n    d0.Setting = ml.twice(d1.Setting) + ml.%s\n    yield_()\n" % K,
                                  "ml": H + d.replace("k1(xa, 3)", "k1(xa, 3)") + "def twice(xa):\n    return xa * 2 + 1\n"}
                if tn == "k1":
                    pos["libinner"] = {"": H + "from library import ml\nwhile True:\n    d0.Setting = ml.twice(d1.Setting) + ml.twice(1)\n    yield_()\n",
                                       "ml": H + d + "def twice(xa):\n    return xa * 2 + %s\n" % K}
            for pn, src in pos.items():
                out.append(("cx_%s_%s" % (base, pn), src))
    # positions that need a small non-negative integer
    d3 = "@constexpr\n" + CX_TEMPLATES["k8"][0]
    out.append(("cx_k8_range_bound", H + d3 + "while True:\n    for idx in range(k8(5)):\n        d0.Setting = idx\n    yield_()\n"))
    out.append(("cx_k8_list_index", H + d3 + "vals = [4, 8, 15, 16, 23]\nwhile True:\n    d0.Setting = vals[k8(5)] + d1.Setting\n    yield_()\n"))
    out.append(("cx_k8_stack_address", H + d3 + "while True:\n    stack[k8(10)] = d1.Setting\n    d0.Setting = stack[k8(10)] + 1\n    yield_()\n"))
    return out


WIDE = [  # (name, definition, call, python expression of the expected value) - results beyond the source machine's numbers: oracle=python
    ("wide_hash_shift", "def kw(name, count):\n    return HASH(name) << 16 | count << 8 | 0x02\n", 'kw("ItemPlasticSheets", 10)'),
    ("wide_hash_str", "def kh(name):\n    return HASH(name)\n", 'kh("StructureFurnace")'),
    ("wide_pow", "def kp(xa):\n    return 3 ** xa\n", "kp(30)"),
    ("wide_hash_nonascii", "def kh(name):\n    return HASH(name) + 1\n", 'kh("Küche")'),
    # names that look like something else to a layer on the way: HASH inside a constexpr is the CRC of exactly the text given
    ("wide_hash_quoted", "def kh(name):\n    return HASH(name)\n", "kh('\"ItemIronIngot\"')"),
    ("wide_hash_wrapped", "def kh(name):\n    return HASH(name) + 2\n", "kh('HASH(\"ItemIronIngot\")')"),
    ("wide_hash_digits", "def kh(name):\n    return HASH(name)\n", 'kh("12")'),
    ("wide_float", "def kf(xa):\n    return xa / 3\n", "kf(10)"),
    ("wide_neg", "def kn(xa):\n    return -(xa << 40) - 1\n", "kn(5)"),
]


def python_value(defn, call):
    import zlib

    def HASH(s):
        v = zlib.crc32(s.encode("utf-8")) & 0xFFFFFFFF
        return v - (1 << 32) if v & 0x80000000 else v

    env = {"HASH": HASH}
    exec(defn, env)
    return eval(call, env)


def _compile_group(group):
    """one worker compiles all jobs of a group one after another: jobs of a group share their constexpr calls, so the
    helper process runs once (the implementation caches by helper text) - and a helper that missed the implementation's
    1 s limit (machine load) is simply tried again"""
    out = []
    for job in group:
        r = cw._compile(job)
        t = 0
        while t < 5 and isinstance(r["result"], dict) and CX_TIMEOUT in json.dumps(r["result"]):
            time.sleep(0.2 + 0.3 * t)
            r = cw._compile(job)
            t += 1
        out.append(r)
    return out


_cx_pool = None


def compile_retry(jobs, group=1):
    """compile constexpr programs: few workers (every compilation starts a helper interpreter whose import takes most of
    the implementation's 1 s limit when many run at once), consecutive `group` jobs on the same worker"""
    global _cx_pool
    import multiprocessing as mp

    if _cx_pool is None:
        _cx_pool = mp.get_context("fork").Pool(5, initializer=cw._init)
    groups = [jobs[k:k + group] for k in range(0, len(jobs), group)]
    res = _cx_pool.map(_compile_group, groups, chunksize=1)
    return [r for g in res for r in g]


def check_c12(tier, t0):
    import checks_text as CT

    rep = Reporter("C12")
    progs = cx_programs()
    if tier == "quick":
        import random
        rnd = random.Random(seed() + 12)
        keep = {n for n, _ in progs if n.endswith(("_0_stmt", "library", "libinner")) or "k8_" in n}
        # every call position at least once (with a seeded choice of the template)
        for pos in ("operand", "argument", "in_function", "in_inlined", "condition", "assigned"):
            cands = sorted(n for n, _ in progs if n.endswith("_" + pos))
            if cands:
                keep.add(rnd.choice(cands))
        rest = [p for p in progs if p[0] not in keep]
        rnd.shuffle(rest)
        progs = [p for p in progs if p[0] in keep] + rest[:20]
    # constexpr functions written by the grammar (ProgGen.tla with Pure = TRUE: bodies without device access, early returns,
    # called with constants from anywhere in the generated main part)
    import proggen
    gen, _gr = proggen.generate("C12_gen", 150 if tier == "thorough" else 40, seed() + 12, max_lines=6, max_depth=2, nfuncs=2, pure=True)
    gen = [(n.replace("pg_", "cxg_"), s) for n, s, p in gen if any(l["kind"] == "call" for l in p["lines"])][: (100 if tier == "thorough" else 16)]
    progs = progs + gen
    vecs = [cw.REF, cw.opts(inline_functions=True), cw.opts(inline_functions=True, remove_labels=True, compact=True)]
    conv, outside = [], {}
    for n, s in progs:
        try:
            a, sh = pysrc.convert(s)
            conv.append((n, s, a))
        except pysrc.Outside as e:
            outside[n] = str(e)
    if len(conv) < 20:
        raise MachineryError("constexpr family outside the converter: %s" % list(outside.items())[:3])
    jobs = [{"src": s, "options": v} for n, s, a in conv for v in vecs]
    res = compile_retry(jobs, group=len(vecs))
    items = []
    k = 0
    undecided = 0
    for n, s, a in conv:
        for v in vecs:
            r = res[k]
            k += 1
            tag = cw.vec_name(v)
            if r["raised"]:
                raise MachineryError("compile_code raised for %s: %s" % (n, r["raised"]))
            code = CL.code_of(r)
            if code is None:
                if CX_TIMEOUT in json.dumps(r["result"]):
                    undecided += 1
                    continue
                rep.violation([n, n + "@" + tag], "CONSTEXPR_PROGRAM_REJECTED", {"property": "C12", "case": n, "variant": tag, "source": s, "result": r["result"]},
                              "case=%s variant=%s rejected: %s" % (n, tag, str(r["result"])[:120]))
                continue
            # the decorated function itself emits no code
            pre, _ = CL.h1_streams(r)
            for fname, fi in (pre["functions"].items() if pre else []):
                if fi["is_constexpr"] and (fi["emitted"] or re.search(r"^\s*%s:" % re.escape(fi["label"]), code, re.M)):
                    rep.violation([n, n + "@" + tag], "CONSTEXPR_FUNCTION_EMITS_CODE", {"property": "C12", "case": n, "variant": tag, "source": s, "code": code},
                                  "case=%s variant=%s the constexpr function %s emitted code" % (n, tag, fname))
            pb = ic10load.load(code)
            items.append({"name": n, "tag": tag, "src": s, "b_text": code, "shapes": [],
                          "case": {"ast": a, "pb": pb, "dom": equiv.pick_dom(pb, pb), "maxn": 3, "fuel": 4096},
                          "sample": {"case": n, "variant": tag, "source": s, "emitted": code}})
    # forbidden bodies must be rejected
    forb = []
    for word, body in (("open", "return len(open('/etc/hostname').read())"), ("eval", "return eval('1 + 1')"), ("exec", "exec('zz = 1')\n    return 1")):
        forb.append((word, corpus.HEADER + "@constexpr\ndef kz(xa):\n    %s\nd0.Setting = kz(1)\n" % body))
    # the forbidden name anywhere in the function: parameter default, nested expression, conditional branch, inner lambda
    forb.append(("eval-default", corpus.HEADER + "@constexpr\ndef kz(xa, fn=eval):\n    return fn('40 + 2') + xa\nd0.Setting = kz(1)\n"))
    forb.append(("open-default", corpus.HEADER + "@constexpr\ndef kz(xa, fo=open):\n    return xa\nd0.Setting = kz(1)\n"))
    forb.append(("exec-nested", corpus.HEADER + "@constexpr\ndef kz(xa):\n    if xa > 5:\n        for ii in range(2):\n            exec('pass')\n    return xa\nd0.Setting = kz(1)\n"))
    forb.append(("eval-lambda", corpus.HEADER + "@constexpr\ndef kz(xa):\n    ff = lambda t: eval(t)\n    return xa\nd0.Setting = kz(1)\n"))
    fres = compile_retry([{"src": s, "options": cw.REF} for _, s in forb])
    for (word, s), r in zip(forb, fres):
        if CL.code_of(r) is not None:
            rep.violation(["forbidden:" + word], "FORBIDDEN_BODY_ACCEPTED", {"property": "C12", "word": word, "source": s, "result": r["result"]},
                          "a constexpr function containing %s was compiled" % word)
    # results beyond the source machine's numbers: Python is the oracle for the value, TLC (NumFmt.tla) reads the literal back
    wide_cases, wide_meta = [], []
    wjobs = []
    for n, d, call in WIDE:
        for form in ("d0.Setting = %s\n", "va = d1.Setting\nd0.Setting = %s\nd2.Setting = va\n"):
            wjobs.append((n, d, call, corpus.HEADER + "@constexpr\n" + d + form % call))
    wres = compile_retry([{"src": s, "options": v} for n, d, call, s in wjobs for v in (cw.REF, cw.opts(compact=True))], group=2)
    k = 0
    for n, d, call, s in wjobs:
        for v in (cw.REF, cw.opts(compact=True)):
            r = wres[k]
            k += 1
            code = CL.code_of(r)
            if code is None:
                if CX_TIMEOUT in json.dumps(r["result"]):
                    undecided += 1
                    continue
                rep.violation([n], "CONSTEXPR_PROGRAM_REJECTED", {"property": "C12", "case": n, "source": s, "result": r["result"]}, "case=%s rejected" % n)
                continue
            tok = ""
            for l in code.split("\n"):
                t = ic10load.tokenize(l)
                if len(t) == 4 and t[0] == "s" and t[1] == "d0":
                    tok = t[3]
            if tok.startswith('HASH("'):
                tok = str(ic10load.signed_crc32(tok[6:-2]))   # verbose spelling of the same number (C08 decides that equivalence)
            val = python_value(d, call)
            wide_cases.append({"tok": [ord(c) for c in tok], "val": CT.dec_of(val), "alt": CT.dec_of(float(val)), "int": isinstance(val, int)})
            wide_meta.append((n, call, val, tok, s, code))
    nwide = 0
    if wide_cases:
        mut = dict(wide_cases[0], tok=wide_cases[0]["tok"][:-1] + [57 if wide_cases[0]["tok"][-1] != 57 else 56])
        rw = CT.tlc("C12_wide", "NumFmt", "SPECIFICATION SpecJudge\nCONSTANTS\n Mantissas <- Nothing\n Points <- Nothing\nCHECK_DEADLOCK FALSE\n",
                    files={"cases.json": wide_cases + [mut]}, workers=4, timeout=900)
        if not rw.ok:
            raise MachineryError("NumFmt.tla (C12 wide values) failed:\n" + rw.out[-2000:])
        tv = rw.verdicts()
        if tv.get(len(wide_cases) + 1, set()) - {"reported"} == {"OK"}:
            raise MachineryError("binding self-test failed: a corrupted constexpr literal was accepted")
        for k2 in range(1, len(wide_cases) + 1):
            for vd in tv.get(k2, set()) - {"reported"}:
                nwide += 1
                if vd != "OK":
                    n, call, val, tok, s, code = wide_meta[k2 - 1]
                    rep.violation([n], "CONSTEXPR_VALUE_DIFFERS", {"property": "C12", "case": n, "call": call, "python_value": repr(val), "emitted_token": tok, "source": s, "code": code, "verdict": vd},
                                  "constexpr call %s: Python gives %r, emitted `%s` (%s)" % (call, val, tok, vd))
    rule = ("constexpr templates (arithmetic, branches, loops, shifts/bitwise, nested constexpr calls, floats, comparisons, while/break, floor division) x "
            "argument values x call positions (statement, operand, argument, body of an out-of-line and of an inlined function, condition, "
            "single-assignment variable, library module, range bound, list index, stack address) x 3 option vectors; the source machine calls the "
            "function at run time (ordinary evaluation), the emitted text holds the literal: equal effects for all inputs; plus: decorated function "
            "emits no code (hook H1 + labels), open/eval/exec bodies rejected, wide results (48-bit hash packing, powers, non-ASCII hash) read back by "
            "NumFmt.tla against Python's value (oracle=python)")
    extra = {"outside_dialect": outside, "generated_constexpr_programs": len(gen), "undecided_helper_timeout_under_load": undecided, "wide_values_oracle_python": nwide, "forbidden_bodies_checked": len(forb)}
    return run_source_check_merge("C12", tier, t0, items, rule, extra, rep, len(rep.violations))


import re  # noqa: E402

CHECKS["C12"] = check_c12
