"""Driving spec/RegAlloc.tla: skeletons of function bodies, the allocator's predicted colouring, rendering."""
import json
import os
import re

import corpus
from common import SPEC, MachineryError, run_tlc, workdir

DEV = {"va": "d1", "vb": "d2", "vc": "d3"}
LOOPV = ["ia", "ib", "ic", "id", "ie", "ig"]


def render(sk):
    """skeleton -> (source, {symbol: source line of its defining instruction})"""
    out = [corpus.HEADER.rstrip("\n"), "def fz(xn):"]
    base = len(out)  # body line i (1-based) is source line base + i
    nloop = 0
    deflines = {"xn": base}
    for i, l in enumerate(sk["lines"], 1):
        ind = "    " * (l["ind"] + 1)
        if l["kind"] == "def":
            rhs = ("%s + %d" % (l["u"], i)) if l["u"] else str(10 + i)
            out.append("%s%s = %s" % (ind, l["v"], rhs))
            deflines.setdefault(l["v"], base + i)
        elif l["kind"] == "use":
            out.append("%s%s.Setting = %s" % (ind, DEV.get(l["u"], "d4"), l["u"]))
        else:
            out.append("%sfor %s in range(2):" % (ind, LOOPV[nloop % len(LOOPV)]))
            deflines["loop%d" % i] = base + i
            nloop += 1
    out += ["    return 0", "while True:", "    d5.Setting = fz(d0.Setting)", "    d5.Setting = fz(1)", "    yield_()"]
    return "\n".join(out) + "\n", deflines


def skeletons(name, seed, max_lines, exhaustive, n=1500, vars_=("va", "vb")):
    d = workdir(name)
    with open(os.path.join(d, "RegAlloc.cfg"), "w") as f:
        f.write("SPECIFICATION Spec\nCONSTANTS\n Vars = {%s}\n MaxLines = %d\n MaxDepth = 2\nINVARIANT Export\nCHECK_DEADLOCK FALSE\n"
                % (", ".join('"%s"' % v for v in vars_), max_lines))
    if exhaustive:
        r = run_tlc(os.path.join(SPEC, "RegAlloc.tla"), os.path.join(d, "RegAlloc.cfg"), d, workers=12, timeout=3000)
        if not r.ok:
            raise MachineryError("RegAlloc.tla: " + r.out[-2000:])
    else:
        r = run_tlc(os.path.join(SPEC, "RegAlloc.tla"), os.path.join(d, "RegAlloc.cfg"), d, workers=1, timeout=1500,
                    simulate="num=%d" % n, extra=["-depth", "24", "-seed", str(seed + 7)])
    out = {}
    for p in r.tagged("SKEL"):
        sk = json.loads(p[1])
        out[json.dumps(sk["lines"])] = sk
    return [out[k] for k in sorted(out)], r


def real_partition(events, deflines):
    """{symbol: physical register} read off hook H1's streams: the output register of the instruction generated for the
    symbol's defining source line"""
    pre = [e for e in events if e["ev"] == "h1_pre"]
    post = [e for e in events if e["ev"] == "h1_post"]
    if len(pre) != 1 or len(post) != 1:
        return None
    res = {}
    for sym, line in deflines.items():
        cands = [k for k, e in enumerate(pre[0]["stream"]) if e.get("line") == line and e.get("out")
                 and (sym != "xn" or e["op"] in ("get", "pop"))]
        if sym.startswith("loop"):
            cands = [k for k in cands if pre[0]["stream"][k]["op"] == "move"]
        if not cands:
            continue
        k = cands[0] if sym.startswith("loop") or sym == "xn" else cands[-1]
        t = post[0]["stream"][k]["text"].split()
        if len(t) >= 2 and re.match(r"^r\d+$", t[1]):
            res[sym] = t[1]
    return res
