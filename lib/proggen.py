"""Driving spec/ProgGen.tla: TLC enumerates / simulates the grammar, this module renders the exported programs."""
import json
import os

import corpus
from common import SPEC, MachineryError, run_tlc, workdir

ALPHABET = 'Vars = {"va", "vb", "vc"}\n Consts = {0, 1, 2, 3}\n Devs = {"d0", "d1"}\n Ops = {"+", "-", "*"}\n Cmps = {"<", "<=", "==", "!=", ">", ">="}\n'
# the exhaustive configuration: every program of two lines over this alphabet (2178 programs)
TINY = 'Vars = {"va"}\n Consts = {1}\n Devs = {"d0"}\n Ops = {"+"}\n Cmps = {"<"}\n'
SMALL = 'Vars = {"va", "vb"}\n Consts = {1, 2}\n Devs = {"d0"}\n Ops = {"+", "*"}\n Cmps = {"<", "=="}\n'


def leaf(x):
    return str(x["v"]) if x["k"] == "c" else x["n"] if x["k"] == "v" else x["d"] + ".Setting"


def expr(e):
    if e["k"] == "l":
        return leaf(e["e"])
    if e["k"] == "b":
        return "%s %s %s" % (leaf(e["l"]), e["op"], leaf(e["r"]))
    return leaf(e)


def line_text(l):
    k = l["kind"]
    if k == "assign":
        return "%s = %s" % (l["a"], expr(l["b"]))
    if k == "aug":
        return "%s %s= %s" % (l["a"], l["b"], leaf(l["c"]))
    if k == "write":
        return "%s.Setting = %s" % (l["a"], expr(l["b"]))
    if k == "call":
        return "%s = %s(%s)" % (l["a"], l["b"], ", ".join(leaf(x) for x in l["c"]))
    if k == "if":
        return "if %s:" % expr(l["a"])
    if k == "else":
        return "else:"
    if k == "for":
        return "for %s in range(%s):" % (l["a"], leaf(l["b"]))
    if k == "winit":
        return "%s = 0" % l["a"]
    if k == "while":
        return "while %s < %s:" % (l["a"], l["b"])
    if k == "wstep":
        return "%s = %s + 1" % (l["a"], l["a"])
    if k in ("break", "continue"):
        return k
    if k == "return":
        return "return %s" % expr(l["a"])
    raise MachineryError("unknown line kind " + k)


def render(p, fn_prefix="", call_prefix="", decorator=None):
    out = [corpus.HEADER.rstrip("\n")]
    out += _defs(p, fn_prefix, decorator)
    out += _main(p, call_prefix or fn_prefix)
    return "\n".join(out) + "\n"


def _defs(p, prefix, decorator=None):
    out = []
    names = ["fa", "fb"]
    for i, f in enumerate(p["fns"]):
        if decorator:
            out.append(decorator)
        out.append("def %s%s(%s):" % (prefix, names[i], ", ".join(f["params"])))
        for l in f["lines"]:
            out.append("    " * l["ind"] + line_text(l))
    return out


def _main(p, call_prefix):
    out = ["while True:", "    va = d0.Setting", "    vb = d1.Setting", "    vc = 0"]
    for l in p["lines"]:
        l2 = dict(l, b=call_prefix + l["b"]) if l["kind"] == "call" else l
        out.append("    " * (l["ind"] + 1) + line_text(l2))
    out += ["    d2.Setting = va", "    d3.Setting = vb", "    d4.Setting = vc", "    yield_()"]
    return out


def render_split(p, module="ml"):
    """the same program with its functions moved into a library module, and the single-file twin whose function names
    carry the module prefix (C13)"""
    H = corpus.HEADER.rstrip("\n")
    lib = "\n".join([H] + _defs(p, "")) + "\n"
    main = "\n".join([H, "from library import %s" % module] + _main(p, module + ".")) + "\n"
    merged = "\n".join([H] + _defs(p, module + "_") + _main(p, module + "_")) + "\n"
    return {"": main, module: lib}, merged


def generate(name, n, seed, max_lines=6, max_depth=2, nfuncs=1, exhaustive=False, alphabet=ALPHABET, pure=False):
    """programs from ProgGen.tla: `n` simulated behaviours (seeded), or all behaviours of a small configuration"""
    d = workdir(name)
    cfg = ("SPECIFICATION Spec\nCONSTANTS\n MaxLines = %d\n MinLines = %d\n MaxDepth = %d\n MaxFnLines = 3\n NFuncs = %d\n %sINVARIANT WellNested\nINVARIANT Export\nCHECK_DEADLOCK FALSE\n"
           % (max_lines, 1 if exhaustive else max(1, max_lines - 3), max_depth, nfuncs, alphabet + (" Pure = %s\n" % ("TRUE" if pure else "FALSE")) + (" Sample = FALSE\n" if exhaustive else " Sample = TRUE\n")))
    with open(os.path.join(d, "ProgGen.cfg"), "w") as f:
        f.write(cfg)
    if exhaustive:
        r = run_tlc(os.path.join(SPEC, "ProgGen.tla"), os.path.join(d, "ProgGen.cfg"), d, workers=8, timeout=1200)
        if not r.ok:
            raise MachineryError("ProgGen.tla: " + r.out[-2000:])
    else:
        # draw more behaviours than asked for: a random walk rarely reaches the deep corners of the grammar (break / continue /
        # else need an open conditional inside a loop), the selection below keeps the programs that did
        r = run_tlc(os.path.join(SPEC, "ProgGen.tla"), os.path.join(d, "ProgGen.cfg"), d, workers=1, timeout=600,
                    simulate="num=%d" % (n * 4), extra=["-depth", "40", "-seed", str(seed + 1)])
        if "Error:" in r.out and "Invariant" in r.out:
            raise MachineryError("ProgGen.tla: " + r.out[-2000:])
    progs = {}
    for p in r.tagged("PROG"):
        progs[p[1]] = json.loads(p[1])
    out = []
    keys = sorted(progs)
    if not exhaustive and len(keys) > n:
        import random
        random.Random(seed).shuffle(keys)
        rare = ("break", "continue", "else")

        def score(k):
            p = progs[k]
            kinds = {l["kind"] for l in p["lines"]}
            depth = max([l["ind"] for l in p["lines"]] or [0])
            return sum(x in kinds for x in rare) * 2 + (depth >= 2) + any(l["kind"] == "if" for f in p["fns"] for l in f["lines"])
        half = sorted(keys, key=score, reverse=True)[: n // 2]          # stable: ties keep the seeded order
        rest = [k for k in keys if k not in set(half)][: n - len(half)]
        keys = sorted(half + rest)
    for k, key in enumerate(keys):
        out.append(("pg_%s_%04d" % (name[-4:], k), render(progs[key], decorator="@constexpr" if pure else None), progs[key]))
    return out, r
