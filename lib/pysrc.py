"""Source programs -> node table of spec/PySrc.tla (the dialect machine).

Uses Python's own `ast` (not astroid, not any compiler pass).  What the converter accepts *is*
the part of the dialect C01 is decided on; anything else raises Outside (the program is then
used only by the artefact-vs-artefact checks).  Name resolution follows Python: a name assigned
in a function and not declared global is local to it, every other name is a module global.

Node fields (all present on every node, so TLC can read them uniformly):
  kind  const name bin un cmp select read mem listidx call | assign aug write memwrite effect0 expr
        if while forrange forlist break continue return pass block
  op    operator / key kind / effect kind
  sc    scope tag of the variable a node names ("l" local, "g" module global)
  name  variable or function name (globals are qualified with their module: "ma.count")
  ch    child expression ids (evaluated left to right, then the node is applied)
  body, orelse   statement ids
  val   constant (a Values.tla value) ; vals  constants of a list
"""
import ast
import zlib
from fractions import Fraction

MAXI = 2**31 - 1


class Outside(Exception):
    """the program uses something the source machine gives no meaning to"""


BINOPS = {ast.Add: "add", ast.Sub: "sub", ast.Mult: "mul", ast.Div: "div", ast.Mod: "mod", ast.Pow: "pow",
          ast.BitAnd: "and", ast.BitXor: "xor", ast.LShift: "sll", ast.RShift: "srl"}
# only inside @constexpr bodies (ordinary Python evaluation): on integers `|` is the bitwise or of IC10's `or`
BINOPS_PY = {ast.BitOr: "or"}
CMPOPS = {ast.Eq: "eq", ast.NotEq: "ne", ast.Lt: "lt", ast.LtE: "le", ast.Gt: "gt", ast.GtE: "ge"}
FUN1 = {"abs", "ceil", "floor", "round", "trunc", "sqrt", "exp", "log", "sin", "cos", "tan", "asin", "acos", "atan"}
FUN2 = {"max", "min", "atan2", "mod", "pow", "add", "sub", "mul", "div", "xor", "nor", "sll", "srl", "sra", "sla"}
FUN2_ALIAS = {"and_": "and", "or_": "or"}
PINS = ("d0", "d1", "d2", "d3", "d4", "d5", "db")
BATCH = ("Average", "Sum", "Minimum", "Maximum")
MATH_CONST = {"pi": 3.141592653589793, "tau": 6.283185307179586, "rgas": 8.31446261815324}


def qval(x):
    # a float constant means what its shortest decimal spelling means (the emitted text spells it the same way
    # and the loader reads that spelling exactly); arithmetic on inexact values is outside TLC's numbers anyway
    fr = Fraction(repr(x)) if isinstance(x, float) and x == x and abs(x) != float("inf") else Fraction(x)
    if abs(fr.numerator) <= MAXI and fr.denominator <= MAXI:
        return [fr.numerator, fr.denominator]
    return ["L", "%d/%d" % (fr.numerator, fr.denominator), ""]


def crc(s):
    v = zlib.crc32(s.encode("utf-8")) & 0xFFFFFFFF
    return v - (1 << 32) if v & 0x80000000 else v


def strpack(s):
    v = 0
    for ch in s:
        v = (v << 8) | ord(ch)
    return v


def dev_atom(pin):
    return ["D", pin, "", "", ""]


class Tables:
    """game tables needed to give device accesses their numeric keys (trusted data, see C16)"""

    def __init__(self):
        import enum

        from stationeers_pytrapic import structures_generated as sg
        from stationeers_pytrapic import types as T
        from stationeers_pytrapic import types_generated as tg

        self.enums = {n: {m.name: int(m.value) for m in o} for n, o in vars(tg).items()
                      if isinstance(o, type) and issubclass(o, enum.IntEnum) and o is not enum.IntEnum}
        self.singular = {n: o._prefab_name for n, o in vars(sg).items()
                         if isinstance(o, type) and issubclass(o, T._BaseStructure) and isinstance(getattr(o, "_prefab_name", None), str)}
        self.plural = {n: o._prefab_name for n, o in vars(sg).items() if isinstance(o, T._BaseStructures)}
        self._classes = {n: o for n, o in vars(sg).items() if isinstance(o, type) and issubclass(o, T._BaseStructure)}
        self._slot_base = T._BaseSlotType

    def slot_index(self, cls_name, attr):
        """number of the slot `attr` (slotN or a named slot) of structure class cls_name, or None"""
        cls = self._classes.get(cls_name)
        if cls is None or attr.startswith("_"):
            return None
        import inspect

        p = inspect.getattr_static(cls, attr, None)
        if not isinstance(p, property):
            return None
        val = p.fget(cls("d0"))
        return int(val._slot_index) if isinstance(val, self._slot_base) else None

    def class_of_hash(self, h):
        """name of the structure class whose prefab name has the hash h (None if there is none)"""
        if not hasattr(self, "_by_hash"):
            self._by_hash = {crc(p): n for n, p in self.singular.items()}
        return self._by_hash.get(h)

    def lt(self, name):
        if name not in self.enums["LogicType"]:
            raise Outside("unknown logic type " + name)
        return self.enums["LogicType"][name]

    def st(self, name):
        if name not in self.enums["LogicSlotType"]:
            raise Outside("unknown slot type " + name)
        return self.enums["LogicSlotType"][name]

    def bm(self, name):
        return self.enums["LogicBatchMethod"][name]


_tables = None


def tables():
    global _tables
    if _tables is None:
        _tables = Tables()
    return _tables


class Conv:
    def __init__(self, modules):
        """modules: {"": main source, "ma": library source, ...} (alias imports resolved here)"""
        self.nodes = []
        self.funcs = {}
        self.T = tables()
        self.trees = {m: ast.parse(s) for m, s in modules.items()}
        self.alias = {}      # name used in the main file -> module
        self.structs = {}    # (module, name) -> ("pin", pin) | ("plural", prefab) | ("named", prefab, namehash)
        self.lists = {}      # (module, scope, name) -> list of constants
        self.shapes = set()  # syntactic features, for matching listed findings
        self.constexpr = set()

    # ---- node table ------------------------------------------------------------------
    def node(self, kind, op="", name="", ch=(), body=(), orelse=(), val=None, vals=(), sc=""):
        self.nodes.append({"kind": kind, "op": op, "sc": sc, "name": name, "ch": list(ch), "body": list(body), "orelse": list(orelse),
                           "val": val if val is not None else [0, 1], "vals": list(vals)})
        return len(self.nodes)

    def const(self, v):
        return self.node("const", val=v)

    def num(self, x):
        return self.const(qval(x))

    # ---- scopes ------------------------------------------------------------------------
    @staticmethod
    def assigned_names(fn):
        out, glob = set(), set()
        for n in ast.walk(fn):
            if isinstance(n, ast.Global):
                glob |= set(n.names)
            elif isinstance(n, ast.Name) and isinstance(n.ctx, ast.Store):
                out.add(n.id)
            elif isinstance(n, (ast.FunctionDef, ast.Lambda, ast.ClassDef)) and n is not fn:
                raise Outside("nested definitions")
        return (out | {a.arg for a in fn.args.args}) - glob

    def var(self, name):
        """(scope tag, qualified name)"""
        if self.locals is not None and name in self.locals:
            return "l", name
        return "g", (self.mod + "." + name) if self.mod else name

    # ---- constants -----------------------------------------------------------------------
    def const_value(self, e):
        """value of a compile-time constant expression node, or None"""
        if isinstance(e, ast.Constant):
            if isinstance(e.value, bool):
                return qval(int(e.value))
            if isinstance(e.value, (int, float)):
                return qval(e.value)
            return None
        if isinstance(e, ast.UnaryOp) and isinstance(e.op, ast.USub) and isinstance(e.operand, ast.Constant) and isinstance(e.operand.value, (int, float)) \
                and not isinstance(e.operand.value, bool):
            return qval(-Fraction(e.operand.value))
        if isinstance(e, ast.Call) and isinstance(e.func, ast.Name) and e.func.id in ("HASH", "STR") and len(e.args) == 1 \
                and isinstance(e.args[0], ast.Constant) and isinstance(e.args[0].value, str):
            return qval(crc(e.args[0].value) if e.func.id == "HASH" else strpack(e.args[0].value))
        if isinstance(e, ast.Name) and e.id in MATH_CONST and self.var(e.id)[0] == "g" and (self.mod, e.id) not in self.assigned_globals:
            return qval(MATH_CONST[e.id])
        if isinstance(e, ast.Attribute) and isinstance(e.value, ast.Name) and e.value.id in self.T.enums and e.attr in self.T.enums[e.value.id]:
            return qval(self.T.enums[e.value.id][e.attr])
        return None

    # ---- device expressions ---------------------------------------------------------------
    def struct_of(self, name):
        """the device object bound to a name: a function's own binding first, then the module's"""
        if self.scope_name and (self.mod, self.scope_name + ":" + name) in self.structs:
            return self.structs[(self.mod, self.scope_name + ":" + name)]
        if self.locals is not None and name in self.locals:
            return None
        return self.structs.get((self.mod, name))

    def device_of(self, e):
        """('pin', node id of the device operand) | ('plural', hash) | ('named', hash, name node) for a device-valued expression"""
        if isinstance(e, ast.Name):
            if e.id in PINS and self.var(e.id)[0] == "g":
                return ("pin", self.const(dev_atom(e.id)))
            if e.id in self.T.plural:
                return ("plural", crc(self.T.plural[e.id]))
            s = self.struct_of(e.id)
            if s is not None:
                if s[0] == "pin":
                    return ("pin", self.const(dev_atom(s[1])), s[2] if len(s) > 2 else None)
                if s[0] in ("stack", "refid_stack"):
                    raise Outside("stack object used as a device")
                if s[0] == "refid_dev":
                    sc, q = self.var(e.id)
                    return ("pin", self.node("name", sc=sc, name=q), s[1])
                if s[0] in ("named", "named_m"):
                    s = s[:2] + (self.num(crc(s[2][1])),) + s[3:]
                return s
        if isinstance(e, ast.Call) and isinstance(e.func, ast.Name) and e.func.id in self.T.singular and len(e.args) == 1 and not e.keywords \
                and isinstance(e.args[0], ast.Name) and e.args[0].id in PINS:
            return ("pin", self.const(dev_atom(e.args[0].id)), e.func.id)
        if isinstance(e, ast.Subscript) and isinstance(e.value, ast.Name) and e.value.id in self.T.plural:
            nm = e.slice
            if isinstance(nm, ast.Constant) and isinstance(nm.value, str):
                return ("named", crc(self.T.plural[e.value.id]), self.num(crc(nm.value)))
            cv = self.const_value(nm)
            if cv is not None:
                return ("named", crc(self.T.plural[e.value.id]), self.const(cv))
            return ("named", crc(self.T.plural[e.value.id]), self.expr(nm))
        raise Outside("device expression " + ast.dump(e)[:60])

    def access(self, e):
        """an Attribute/Subscript that denotes a device / slot / batch / stack location:
        returns (read_kind, write_kind, operand node ids) or None"""
        if isinstance(e, ast.Subscript) and isinstance(e.value, ast.Name) and e.value.id == "stack" and self.var("stack")[0] == "g":
            return ("mem", "memwrite", [self.expr(e.slice)])
        if isinstance(e, ast.Subscript) and isinstance(e.value, ast.Name) and (self.struct_of(e.value.id) or ("",))[0] == "refid_stack":
            sc, q = self.var(e.value.id)
            return ("get", "put", [self.node("name", sc=sc, name=q), self.expr(e.slice)])
        if isinstance(e, ast.Subscript) and isinstance(e.value, ast.Name) and (self.struct_of(e.value.id) or ("",))[0] == "stack":
            pin = self.struct_of(e.value.id)[1]
            if pin == "db":
                return ("mem", "memwrite", [self.expr(e.slice)])
            return ("get", "put", [self.const(dev_atom(pin)), self.expr(e.slice)])
        if not isinstance(e, ast.Attribute):
            return None
        base = e.value
        # slot: typed.slotN.SlotType / typed.NamedSlot.SlotType
        if isinstance(base, ast.Attribute) and e.attr in self.T.enums["LogicSlotType"]:
            try:
                d = self.device_of(base.value)
            except Outside:
                d = None
            if d is not None and d[0] == "pin" and len(d) > 2 and d[2]:
                idx = self.T.slot_index(d[2], base.attr)
                if idx is not None:
                    return ("ls", "ss", [d[1], self.num(idx), self.num(self.T.st(e.attr))])
        # batch slot read: Plural.Slot.SlotType.Method  /  Plural["n"].Slot.SlotType.Method ; batch slot write: Plural.Slot.SlotType = v
        if e.attr in BATCH and isinstance(base, ast.Attribute) and base.attr in self.T.enums["LogicSlotType"] and isinstance(base.value, ast.Attribute):
            try:
                d = self.device_of(base.value.value)
            except Outside:
                d = None
            if d is not None and d[0] in ("plural", "named"):
                idx = self.T.slot_index(self.T.class_of_hash(d[1]), base.value.attr)
                if idx is not None:
                    tail = [self.num(idx), self.num(self.T.st(base.attr)), self.num(self.T.bm(e.attr))]
                    if d[0] == "plural":
                        return ("lbs", None, [self.num(d[1])] + tail)
                    return ("lbns", None, [self.num(d[1]), d[2]] + tail)
        if e.attr in self.T.enums["LogicSlotType"] and isinstance(base, ast.Attribute):
            try:
                d = self.device_of(base.value)
            except Outside:
                d = None
            if d is not None and d[0] == "plural":
                idx = self.T.slot_index(self.T.class_of_hash(d[1]), base.attr)
                if idx is not None:
                    return (None, "sbs", [self.num(d[1]), self.num(idx), self.num(self.T.st(e.attr))])
        # batch with the method last: Plural.Attr.Method   /  Plural["n"].Attr.Method
        if e.attr in BATCH and isinstance(base, ast.Attribute):
            try:
                d = self.device_of(base.value)
            except Outside:
                d = None
            if d is not None and d[0] in ("plural", "named"):
                lt = self.num(self.T.lt(base.attr))
                bm = self.num(self.T.bm(e.attr))
                if d[0] == "plural":
                    return ("lb", None, [self.num(d[1]), lt, bm])
                return ("lbn", None, [self.num(d[1]), d[2], lt, bm])
        # batch with the method first: Plural.Method.Attr
        if isinstance(base, ast.Attribute) and base.attr in BATCH:
            try:
                d = self.device_of(base.value)
            except Outside:
                d = None
            if d is not None and d[0] in ("plural", "named"):
                lt = self.num(self.T.lt(e.attr))
                bm = self.num(self.T.bm(base.attr))
                if d[0] == "plural":
                    return ("lb", None, [self.num(d[1]), lt, bm])
                return ("lbn", None, [self.num(d[1]), d[2], lt, bm])
        d = self.device_of(base)
        if d[0] == "plural_m":
            return ("lb", None, [self.num(d[1]), self.num(self.T.lt(e.attr)), self.num(self.T.bm(d[2]))])
        if d[0] == "named_m":
            return ("lbn", None, [self.num(d[1]), d[2], self.num(self.T.lt(e.attr)), self.num(self.T.bm(d[3]))])
        if d[0] == "pin":
            return ("l", "s", [d[1], self.num(self.T.lt(e.attr))])
        if d[0] == "plural":
            return (None, "sb", [self.num(d[1]), self.num(self.T.lt(e.attr))])
        if d[0] == "named":
            return (None, "sbn", [self.num(d[1]), d[2], self.num(self.T.lt(e.attr))])
        raise Outside("access")

    # ---- expressions --------------------------------------------------------------------------
    def expr(self, e):
        cv = self.const_value(e)
        if cv is not None:
            return self.const(cv)
        if isinstance(e, ast.Name):
            key = (self.mod, self.scope_name, e.id)
            if e.id in PINS or e.id in self.T.plural or self.struct_of(e.id) is not None:
                raise Outside("device used as a value")
            sc, q = self.var(e.id)
            return self.node("name", sc=sc, name=q)
        if isinstance(e, ast.BinOp):
            if type(e.op) in BINOPS_PY and self.in_constexpr:
                return self.node("bin", op=BINOPS_PY[type(e.op)], ch=[self.expr(e.left), self.expr(e.right)])
            if isinstance(e.op, ast.FloorDiv) and self.in_constexpr:
                return self.node("un", op="floor", ch=[self.node("bin", op="div", ch=[self.expr(e.left), self.expr(e.right)])])
            if type(e.op) not in BINOPS:
                raise Outside("operator " + type(e.op).__name__)
            return self.node("bin", op=BINOPS[type(e.op)], ch=[self.expr(e.left), self.expr(e.right)])
        if isinstance(e, ast.BoolOp):
            op = "and" if isinstance(e.op, ast.And) else "or"
            self.shapes.add("boolop")
            # a and b and c  ==  a and (b and c)   (the transpiler nests to the right)
            ids = [self.expr(v) for v in e.values]
            acc = ids[-1]
            for i in reversed(ids[:-1]):
                acc = self.node("bin", op=op, ch=[i, acc])
            return acc
        if isinstance(e, ast.UnaryOp):
            if isinstance(e.op, ast.USub):
                return self.node("bin", op="sub", ch=[self.num(0), self.expr(e.operand)])
            if isinstance(e.op, ast.Not):
                return self.node("cmp", op="eq", ch=[self.expr(e.operand), self.num(0)])
            if isinstance(e.op, ast.UAdd):
                raise Outside("unary plus")
            if isinstance(e.op, ast.Invert):
                self.shapes.add("invert")
                return self.node("un", op="not", ch=[self.expr(e.operand)])
        if isinstance(e, ast.Compare):
            if len(e.ops) != 1:
                raise Outside("chained comparison")
            return self.node("cmp", op=CMPOPS[type(e.ops[0])], ch=[self.expr(e.left), self.expr(e.comparators[0])])
        if isinstance(e, ast.IfExp):
            self.shapes.add("ifexp")
            return self.node("select", ch=[self.expr(e.test), self.expr(e.body), self.expr(e.orelse)])
        if isinstance(e, ast.Subscript) and isinstance(e.value, (ast.List, ast.Tuple, ast.Name)) and not (isinstance(e.value, ast.Name) and e.value.id == "stack"):
            lst = None
            if isinstance(e.value, (ast.List, ast.Tuple)):
                lst = [self.const_value(x) for x in e.value.elts]
            elif (self.mod, self.scope_name, e.value.id) in self.lists:
                lst = self.lists[(self.mod, self.scope_name, e.value.id)]
            elif (self.mod, "", e.value.id) in self.lists and self.var(e.value.id)[0] == "g":
                lst = self.lists[(self.mod, "", e.value.id)]
            if lst is not None:
                if any(x is None for x in lst):
                    raise Outside("non-constant list")
                self.shapes.add("listidx")
                if len(lst) >= 6:
                    self.shapes.add("list_of_six_or_more_with_runtime_index")
                return self.node("listidx", ch=[self.expr(e.slice)], vals=lst)
        acc = self.access(e) if isinstance(e, (ast.Attribute, ast.Subscript)) else None
        if acc is not None:
            rk, wk, ops = acc
            if rk is None:
                raise Outside("batch read without a batch method")
            if rk == "mem":
                return self.node("mem", ch=ops)
            return self.node("read", op=rk, ch=ops)
        if isinstance(e, ast.Call):
            return self.call(e, want_value=True)
        raise Outside("expression " + type(e).__name__)

    def call(self, e, want_value):
        if e.keywords:
            raise Outside("keyword arguments")
        f = e.func
        if isinstance(f, ast.Attribute) and isinstance(f.value, ast.Name) and f.value.id in self.alias and self.mod == "":
            fname = self.alias[f.value.id] + "." + f.attr
            if fname not in self.fn_defs:
                raise Outside("unknown library function " + fname)
            return self.node("call", name=fname, ch=[self.expr(a) for a in e.args])
        if not isinstance(f, ast.Name):
            raise Outside("call of " + type(f).__name__)
        n = f.id
        qual = (self.mod + "." + n) if self.mod else n
        if qual in self.fn_defs:
            if len(e.args) != self.fn_defs[qual]:
                raise Outside("arity")
            return self.node("call", name=qual, ch=[self.expr(a) for a in e.args])
        args = e.args
        if n in FUN1 and len(args) == 1:
            return self.node("un", op=n, ch=[self.expr(args[0])])
        if (n in FUN2 or n in FUN2_ALIAS) and len(args) == 2:
            return self.node("bin", op=FUN2_ALIAS.get(n, n), ch=[self.expr(args[0]), self.expr(args[1])])
        if n == "select" and len(args) == 3:
            return self.node("select", ch=[self.expr(a) for a in args])
        if n == "rand" and not args:
            return self.node("read", op="rand", ch=[])
        if n in ("sdse", "sdns") and len(args) == 1:
            d = self.device_of(args[0])
            if d[0] != "pin":
                raise Outside("sdse of a batch")
            r = self.node("read", op="dse", ch=[d[1]])
            return r if n == "sdse" else self.node("cmp", op="eq", ch=[r, self.num(0)])
        if not want_value:
            if n == "yield_" and not args:
                return self.node("effect0", op="yield")
            if n == "sleep" and len(args) == 1:
                return self.node("effect0", op="sleep", ch=[self.expr(args[0])])
            if n == "hcf" and not args:
                return self.node("effect0", op="hcf")
        raise Outside("call of " + n)

    # ---- statements -------------------------------------------------------------------------------
    def block(self, stmts):
        out = []
        for s in stmts:
            r = self.stmt(s)
            if r is not None:
                out.append(r)
        return out

    def stmt(self, s):
        if isinstance(s, (ast.Import, ast.ImportFrom, ast.Global, ast.FunctionDef)):
            return None
        if isinstance(s, ast.Pass):
            return self.node("pass")
        if isinstance(s, ast.Expr):
            if isinstance(s.value, ast.Constant):
                return None  # docstring
            if isinstance(s.value, ast.Call):
                v = self.call(s.value, want_value=False)
                if self.nodes[v - 1]["kind"] == "effect0":
                    return v
                return self.node("expr", ch=[v])
            raise Outside("expression statement")
        if isinstance(s, ast.Assign):
            if len(s.targets) != 1:
                raise Outside("multiple targets")
            t = s.targets[0]
            if isinstance(t, ast.Name):
                sd = self.static_device(s.value)
                if sd is not None and sd[0].startswith("refid"):
                    sc, q = self.var(t.id)
                    return self.node("assign", sc=sc, name=q, ch=[self.expr(s.value.keywords[0].value)])
                if sd is not None or (self.mod, self.scope_name, t.id) in self.lists:
                    return None  # structure / constant-list binding: handled statically
                sc, q = self.var(t.id)
                v = self.expr(s.value)
                if isinstance(s.value, ast.Name):
                    self.shapes.add("copy")
                return self.node("assign", sc=sc, name=q, ch=[v])
            acc = self.access(t)
            if acc is None:
                raise Outside("assignment target")
            rk, wk, ops = acc
            if wk is None:
                raise Outside("not writable")
            v = self.expr(s.value)
            if wk == "memwrite":
                return self.node("memwrite", ch=ops + [v])
            return self.node("write", op=wk, ch=ops + [v])
        if isinstance(s, ast.AugAssign):
            if not isinstance(s.target, ast.Name) or type(s.op) not in BINOPS:
                raise Outside("augmented assignment")
            sc, q = self.var(s.target.id)
            return self.node("aug", op=BINOPS[type(s.op)], sc=sc, name=q, ch=[self.expr(s.value)])
        if isinstance(s, ast.If):
            return self.node("if", ch=[self.expr(s.test)], body=self.block(s.body), orelse=self.block(s.orelse))
        if isinstance(s, ast.While):
            if s.orelse:
                raise Outside("while-else")
            return self.node("while", ch=[self.expr(s.test)], body=self.block(s.body))
        if isinstance(s, ast.For):
            if s.orelse or not isinstance(s.target, ast.Name):
                raise Outside("for form")
            sc, q = self.var(s.target.id)
            it = s.iter
            if isinstance(it, ast.Call) and isinstance(it.func, ast.Name) and it.func.id == "range" and 1 <= len(it.args) <= 3 and not it.keywords:
                a = it.args
                start = self.num(0) if len(a) == 1 else self.expr(a[0])
                stop = self.expr(a[0] if len(a) == 1 else a[1])
                step = self.num(1) if len(a) < 3 else self.expr(a[2])
                if any(isinstance(x, ast.Continue) for b in s.body for x in ast.walk(b)):
                    self.shapes.add("continue_in_for")
                return self.node("forrange", sc=sc, name=q, ch=[start, stop, step], body=self.block(s.body))
            lst = None
            if isinstance(it, (ast.List, ast.Tuple)):
                lst = [self.const_value(x) for x in it.elts]
            elif isinstance(it, ast.Name):
                lst = self.lists.get((self.mod, self.scope_name, it.id)) or self.lists.get((self.mod, "", it.id))
            if lst is None or any(x is None for x in lst):
                raise Outside("for over a non-constant")
            self.shapes.add("forlist")
            return self.node("forlist", sc=sc, name=q, body=self.block(s.body), vals=lst)
        if isinstance(s, ast.Break):
            return self.node("break")
        if isinstance(s, ast.Continue):
            return self.node("continue")
        if isinstance(s, ast.Return):
            return self.node("return", ch=[self.expr(s.value)] if s.value is not None else [])
        raise Outside("statement " + type(s).__name__)

    # ---- modules ---------------------------------------------------------------------------------------
    def prescan(self, mod, tree):
        """static bindings: structures, constant lists, function arities, which globals are assigned"""
        self.mod, self.locals, self.scope_name = mod, None, ""
        for s in tree.body:
            if isinstance(s, ast.ImportFrom) and s.module == "library" and mod == "":
                for a in s.names:
                    self.alias[a.asname or a.name] = a.name
            if isinstance(s, ast.FunctionDef):
                decos = [dd.id if isinstance(dd, ast.Name) else "?" for dd in s.decorator_list]
                if decos not in ([], ["constexpr"]) or s.args.vararg or s.args.kwarg or s.args.defaults or s.args.kwonlyargs:
                    raise Outside("function form")
                if decos:
                    # a @constexpr function means what calling it means (C12): the source machine simply calls it
                    self.constexpr.add((mod + "." + s.name) if mod else s.name)
                self.fn_defs[(mod + "." + s.name) if mod else s.name] = len(s.args.args)
        for n in ast.walk(tree):
            if isinstance(n, ast.Name) and isinstance(n.ctx, ast.Store):
                self.assigned_globals.add((mod, n.id))

    def bind_static(self, mod, scope, stmts):
        todo = list(stmts)
        flat = []
        while todo:
            s = todo.pop(0)
            if isinstance(s, ast.FunctionDef):
                continue
            flat.append(s)
            for fld in ("body", "orelse"):
                todo += getattr(s, fld, []) or []
        for s in flat:
            if isinstance(s, ast.Assign) and len(s.targets) == 1 and isinstance(s.targets[0], ast.Name):
                t, v = s.targets[0].id, s.value
                if isinstance(v, (ast.List, ast.Tuple)):
                    self.lists[(mod, scope, t)] = [self.const_value(x) for x in v.elts]
                # a name bound to a device object (module level, or local to a function: key (mod, "fn:name"))
                key = (mod, t) if scope == "" else (mod, scope + ":" + t)
                st = self.static_device(v)
                if st is not None:
                    if key in self.structs and self.structs[key] != st:
                        raise Outside("device name bound twice")
                    self.structs[key] = st
                    if st[0].startswith("refid") and scope != "":
                        self.shapes.add("refid_object_made_in_function")

    def static_device(self, v):
        """the device object a right-hand side denotes, or None: Plural, Plural["name"], either with a batch method,
        Typed(dN) (alias=... only names the pin in the emitted text), Stack(dN)"""
        if isinstance(v, ast.Name) and v.id in self.T.plural:
            return ("plural", crc(self.T.plural[v.id]))
        if isinstance(v, ast.Call) and isinstance(v.func, ast.Name) and len(v.args) == 1 and isinstance(v.args[0], ast.Name) and v.args[0].id in PINS \
                and all(k.arg == "alias" and isinstance(k.value, ast.Constant) for k in v.keywords):
            if v.func.id in self.T.singular:
                return ("pin", v.args[0].id, v.func.id)
            if v.func.id == "Stack" and not v.keywords:
                return ("stack", v.args[0].id)
        if isinstance(v, ast.Call) and isinstance(v.func, ast.Name) and not v.args and len(v.keywords) == 1 and v.keywords[0].arg == "ref_id" \
                and (v.func.id in self.T.singular or v.func.id == "Stack"):
            # an object addressed by a reference id: the id is evaluated where the object is made and kept in the name
            return ("refid_stack",) if v.func.id == "Stack" else ("refid_dev", v.func.id)
        if isinstance(v, ast.Subscript) and isinstance(v.value, ast.Name) and v.value.id in self.T.plural \
                and isinstance(v.slice, ast.Constant) and isinstance(v.slice.value, str):
            return ("named", crc(self.T.plural[v.value.id]), ("hashname", v.slice.value))
        if isinstance(v, ast.Attribute) and v.attr in BATCH:
            b = self.static_device(v.value)
            if b is not None and b[0] in ("plural", "named"):
                return (b[0] + "_m",) + tuple(b[1:]) + (v.attr,)
        return None

    def convert(self):
        self.fn_defs = {}
        self.assigned_globals = set()
        self.in_constexpr = False
        for m, t in self.trees.items():
            self.prescan(m, t)
        order = [m for m in self.trees if m != ""] + [""]
        main_body = []
        for m in order:
            tree = self.trees[m]
            self.mod, self.locals, self.scope_name = m, None, ""
            self.bind_static(m, "", tree.body)
            for s in tree.body:
                if isinstance(s, ast.FunctionDef):
                    self.locals, self.scope_name = self.assigned_names(s), s.name
                    self.in_constexpr = bool(s.decorator_list)
                    self.bind_static(m, s.name, s.body)
                    body = self.block(s.body)
                    self.in_constexpr = False
                    self.funcs[(m + "." + s.name) if m else s.name] = {"params": [a.arg for a in s.args.args], "body": body}
                    self.locals, self.scope_name = None, ""
            stmts = tree.body
            if m != "":
                # a library's `if __name__ == "__main__":` block contributes nothing
                stmts = [s for s in stmts if not (isinstance(s, ast.If) and isinstance(s.test, ast.Compare) and isinstance(s.test.left, ast.Name)
                                                   and s.test.left.id == "__name__")]
            main_body += self.block(stmts)
        main = self.node("block", body=main_body)
        if not self.funcs:
            self.funcs["__none__"] = {"params": [], "body": []}
        return {"nodes": self.nodes, "funcs": self.funcs, "main": main}


def shape_tags(tree):
    """syntactic shapes that the listed source-level findings are keyed on"""
    tags = set()
    scopes = [tree] + [n for n in ast.walk(tree) if isinstance(n, ast.FunctionDef)]
    fnames = {n.name for n in ast.walk(tree) if isinstance(n, ast.FunctionDef)}
    for fn in [n for n in ast.walk(tree) if isinstance(n, ast.FunctionDef)]:
        if not fn.body:
            continue
        last = fn.body[-1]
        lastcall = last.value if isinstance(last, (ast.Expr, ast.Return)) and isinstance(getattr(last, "value", None), ast.Call) else None
        if lastcall is not None and isinstance(lastcall.func, (ast.Name, ast.Attribute)):
            name = lastcall.func.id if isinstance(lastcall.func, ast.Name) else lastcall.func.attr
            if name in fnames:
                others = [c for c in ast.walk(fn) if isinstance(c, ast.Call) and c is not lastcall
                          and (c.func.id if isinstance(c.func, ast.Name) else getattr(c.func, "attr", "")) in fnames]
                early = [r for r in ast.walk(fn) if isinstance(r, ast.Return) and r is not last]
                if others or early:
                    tags.add("tail_call_with_other_call_or_early_return")
    for sc in scopes:
        body = [n for n in ast.walk(sc) if not (isinstance(n, ast.FunctionDef) and n is not sc)]
        own = []
        todo = list(ast.iter_child_nodes(sc))
        while todo:
            n = todo.pop()
            if isinstance(n, ast.FunctionDef):
                continue
            own.append(n)
            todo += list(ast.iter_child_nodes(n))
        stores = {}
        for n in own:
            if isinstance(n, ast.Name) and isinstance(n.ctx, ast.Store):
                stores[n.id] = stores.get(n.id, 0) + 1
            if isinstance(n, ast.AugAssign) and isinstance(n.target, ast.Name):
                stores[n.target.id] = stores.get(n.target.id, 0) + 1
        for n in own:
            if isinstance(n, ast.Assign) and isinstance(n.value, ast.Name) and len(n.targets) == 1 and isinstance(n.targets[0], ast.Name) \
                    and stores.get(n.value.id, 0) > 1:
                tags.add("copy_of_reassigned_variable")
            if isinstance(n, ast.Assign) and isinstance(n.value, ast.Name) and len(n.targets) == 1 and isinstance(n.targets[0], ast.Name) \
                    and isinstance(sc, ast.FunctionDef) and n.value.id in stores:
                tags.add("copy_of_local_variable_in_function")
            if isinstance(n, ast.For) and isinstance(n.target, ast.Name):
                inner = {id(x) for b in n.body for x in ast.walk(b)}
                is_range = isinstance(n.iter, ast.Call) and isinstance(n.iter.func, ast.Name) and n.iter.func.id == "range"
                if is_range and any(isinstance(x, ast.Continue) for b in n.body for x in ast.walk(b)):
                    tags.add("continue_in_for_range")
                if any(isinstance(x, ast.Name) and x.id == n.target.id and isinstance(x.ctx, ast.Load) and id(x) not in inner for x in own):
                    tags.add("loop_variable_read_outside_loop")
                if any(isinstance(x, ast.Name) and x.id == n.target.id and isinstance(x.ctx, ast.Store) and id(x) not in inner and x is not n.target for x in own):
                    tags.add("for_target_also_assigned_elsewhere")
                if is_range:
                    a = n.iter.args
                    def is_const(x):
                        return isinstance(x, ast.Constant) or (isinstance(x, ast.UnaryOp) and isinstance(x.operand, ast.Constant))

                    def named_const(x):
                        # a name assigned exactly once, with a constant (the transpiler propagates it)
                        if not isinstance(x, ast.Name):
                            return False
                        defs = [m for m in ast.walk(tree) if isinstance(m, ast.Assign) and len(m.targets) == 1 and isinstance(m.targets[0], ast.Name)
                                and m.targets[0].id == x.id]
                        others = [m for m in ast.walk(tree) if isinstance(m, (ast.AugAssign, ast.For)) and isinstance(getattr(m, "target", None), ast.Name)
                                  and m.target.id == x.id]
                        return len(defs) == 1 and not others and is_const(defs[0].value)

                    if len(a) == 3 and not (is_const(a[2]) or named_const(a[2])):
                        tags.add("range_step_not_constant")
                    bound_names = {x.id for arg in a for x in ast.walk(arg) if isinstance(x, ast.Name)}
                    if any(isinstance(x, ast.Name) and isinstance(x.ctx, ast.Store) and x.id in bound_names for b in n.body for x in ast.walk(b)) or \
                            any(isinstance(x, ast.AugAssign) and isinstance(x.target, ast.Name) and x.target.id in bound_names for b in n.body for x in ast.walk(b)):
                        tags.add("range_bound_assigned_in_body")
    return tags


def convert(src):
    """src: str or {module: str}.  Returns (ast record for PySrc.tla, set of shape tags).  Raises Outside."""
    mods = {"": src} if isinstance(src, str) else dict(src)
    c = Conv(mods)
    for t in c.trees.values():
        c.shapes |= shape_tags(t)
    try:
        a = c.convert()
    except SyntaxError as e:
        raise Outside("syntax error: %s" % e)
    except RecursionError:
        raise Outside("too deep")
    return a, c.shapes
