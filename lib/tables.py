"""Reflection of the working tree's generated tables into JSON for spec/Tables.tla (C16).
Runs inside a worker process that imported REPO/src."""
import enum
import inspect
import json
import os
import re


def _props(cls):
    out = {}
    for k in dir(cls):
        if k.startswith("_"):
            continue
        try:
            v = inspect.getattr_static(cls, k)
        except AttributeError:
            continue
        if isinstance(v, property):
            out[k] = v
    return out


def _declared_slot(prop):
    """For `def Import(self): return self.slot0` the number 0; for numbered slots the literal index."""
    try:
        src = inspect.getsource(prop.fget)
    except Exception:
        return -1
    m = re.search(r"return\s+self\.slot(\d+)\s*$", src.strip())
    if m:
        return int(m.group(1))
    m = re.search(r"return\s+\w+\(self,\s*(\d+)\)\s*$", src.strip())
    if m:
        return int(m.group(1))
    return -1


def _slots(cls, inst, base):
    numbered, named = [], []
    for k, p in sorted(_props(cls).items()):
        try:
            val = p.fget(inst)
        except Exception:
            continue
        if isinstance(val, base):
            m = re.fullmatch(r"slot(\d+)", k)
            rec = {"name": k, "idx": int(val._slot_index), "decl": _declared_slot(p), "cls": type(val).__name__}
            if m:
                rec["n"] = int(m.group(1))
                numbered.append(rec)
            else:
                named.append(rec)
    return numbered, named


def _logic(cls, inst, kinds, lt_members):
    out = []
    for k, p in sorted(_props(cls).items()):
        try:
            val = p.fget(inst)
        except Exception:
            continue
        if isinstance(val, kinds):
            lt = val._logic_type
            name = lt.name if isinstance(lt, enum.Enum) else str(lt)
            out.append({"prop": k, "lt": name, "known": name in lt_members})
    return out


def extract(repo):
    from stationeers_pytrapic import intrinsics as it
    from stationeers_pytrapic import structures_generated as sg
    from stationeers_pytrapic import types as T
    from stationeers_pytrapic import types_generated as tg

    lt_members = set(tg.LogicType.__members__)
    sing, plur = {}, {}
    for n, o in vars(sg).items():
        if isinstance(o, type) and issubclass(o, T._BaseStructure) and o is not T._BaseStructure and isinstance(getattr(o, "_prefab_name", None), str) \
                and not n.startswith("_"):
            sing[n] = o
        if isinstance(o, T._BaseStructures) and not n.startswith("_"):
            plur[n] = o
    by_prefab = {}
    for n, o in plur.items():
        by_prefab.setdefault(o._prefab_name, []).append((n, o))
    structures = []
    for n, cls in sorted(sing.items()):
        inst = cls("d0")
        numbered, named = _slots(cls, inst, T._BaseSlotType)
        ps = by_prefab.get(cls._prefab_name, [])
        prec = []
        for pn, po in ps:
            pnum, pnamed = _slots(type(po), po, T._BaseSlotTypes)
            meth = []
            for mname in ("Average", "Sum", "Minimum", "Maximum"):
                try:
                    mo = getattr(po, mname)
                    meth.append({"m": mname, "cls": type(mo).__name__, "prefab": list(str(getattr(mo, "_prefab_name", "")).encode("utf-8")),
                                 "named": list(str(getattr(type(po)("nm"), mname)._name).encode("utf-8"))})
                except Exception as e:
                    meth.append({"m": mname, "cls": "!" + type(e).__name__, "prefab": [], "named": []})
            prec.append({"name": pn, "hash": int(po._hash) if isinstance(po._hash, int) else 0, "hash_is_int": isinstance(po._hash, int), "methods": meth,
                         "prefab": list(str(po._prefab_name).encode("utf-8")), "numbered": pnum, "named": pnamed,
                         "logic": _logic(type(po), po, (T._DevicesLogicType,), lt_members),
                         "reachable": getattr(sg, pn, None) is po})
        structures.append({"kind": "structure", "name": n, "hash": int(cls._hash) if isinstance(cls._hash, int) else 0,
                           "hash_is_int": isinstance(cls._hash, int) and not isinstance(cls._hash, bool),
                           "prefab": list(cls._prefab_name.encode("utf-8")), "prefab_text": cls._prefab_name,
                           "numbered": numbered, "named": named, "plurals": prec,
                           "logic": _logic(cls, inst, (T._DeviceLogicType,), lt_members),
                           "reachable": getattr(sg, n, None) is cls})
    # plural objects without a singular class
    sing_prefabs = {c._prefab_name for c in sing.values()}
    orphans = [n for n, o in plur.items() if o._prefab_name not in sing_prefabs]
    # intrinsic wrappers
    with open(os.path.join(repo, "webapp", "src", "ic10.json")) as f:
        ic10 = json.load(f)
    json_ops = set(ic10.get("instructions", []))
    wrappers = []
    for n, f in sorted(vars(it).items()):
        if not (inspect.isfunction(f) and f.__module__ == it.__name__) or n.startswith("_"):
            continue
        if n in ("HASH", "STR"):
            continue  # compile-time builtins, not instruction wrappers
        sig = inspect.signature(f)
        nargs = len(sig.parameters)
        markers = ["\x00M%d" % i for i in range(nargs)]
        try:
            r = f(*markers)
            ok = isinstance(r, T.IC10Instruction)
        except Exception as e:
            r, ok = None, False
        if not ok:
            wrappers.append({"kind": "wrapper", "name": n, "op": "", "ops": [], "nargs": nargs, "has_out": False, "callable": False, "in_json": False})
            continue
        ops = []
        for i in r.inputs:
            v = i.value
            ops.append(markers.index(v) if v in markers else -1)
        wrappers.append({"kind": "wrapper", "name": n, "op": r.op, "ops": ops, "nargs": nargs, "has_out": r.output is not None,
                         "callable": True, "in_json": r.op in json_ops})
    enums = []
    for n, o in sorted(vars(tg).items()):
        if isinstance(o, type) and issubclass(o, enum.IntEnum) and o is not enum.IntEnum:
            mem = [{"name": k, "value": int(m.value), "canonical": m.name} for k, m in o.__members__.items()]
            enums.append({"kind": "enum", "name": n, "members": mem})
    return {"structures": structures, "orphan_plurals": orphans, "wrappers": wrappers, "enums": enums, "json_ops": sorted(json_ops)}


def run(job):
    return extract(job["repo"])
