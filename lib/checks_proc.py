"""Process-level checks: TLC enumerates the behaviours of a specification (conversations with
the daemon, directive texts, histories of compilations); each behaviour is replayed into the
real code and what the code did is compared with the specification state (and, for the
daemon, the recorded conversations are validated by TLC as traces)."""
import base64
import json
import os
import random
import subprocess
import sys
import time
from concurrent.futures import ThreadPoolExecutor

import compilew as cw
import corpus
from common import PY, REPO, SPEC, MachineryError, Reporter, run_tlc, seed, workdir, write_evidence


def tlc_exports(r, tag):
    out = []
    for p in r.tagged(tag):
        out.append(json.loads(p[1]))
    return out


# ---------------------------------------------------------------------------------------
# C14 daemon
# ---------------------------------------------------------------------------------------
GOOD_SRC = corpus.HEADER + "d0.Setting = d1.Setting + 1\n"
PRINT_SRC = corpus.HEADER + "@constexpr\ndef kk(xa):\n    print('hello from constexpr')\n    return xa + 1\nd0.Setting = kk(2)\n"


def b64(obj):
    raw = obj if isinstance(obj, bytes) else json.dumps(obj).encode("utf-8")
    return base64.b64encode(raw).decode("ascii")


def render_request(c, rnd):
    if c == "valid":
        return b64({"action": "compile", "code": {"": GOOD_SRC}, "options": {"compact": rnd.random() < 0.5}})
    if c == "srcerr":
        return b64({"action": "compile", "code": {"": rnd.choice(["x = (\n", corpus.HEADER + "import os\nclass A: pass\n", "def f(:\n"])}})
    if c == "crash":
        # compile_code raises (KeyError: no main module in the mapping); the daemon must turn that into an error reply
        return b64({"action": "compile", "code": {rnd.choice(["lib", "x", "main"]): GOOD_SRC}})
    if c == "print":
        return b64({"action": "compile", "code": {"": PRINT_SRC}})
    if c == "bad64":
        return rnd.choice(["abc", "====", "a" * 5])
    if c == "badjson":
        return b64(b"{not json")
    if c == "badutf":
        return b64(b"\xff\xfe\x00\x80")
    if c == "notdict":
        return b64(rnd.choice([b"[1, 2]", b'"compile"', b"17", b"null"]))
    if c == "badaction":
        return b64({"action": rnd.choice(["explode", "", None]), "code": {"": GOOD_SRC}})
    if c == "nocode":
        return b64({"action": "compile"})
    if c == "codestr":
        return b64({"action": "compile", "code": 5})
    if c == "badopts":
        return b64({"action": "compile", "code": {"": GOOD_SRC}, "options": {"nonsense": True}})
    if c == "blank":
        return rnd.choice(["", "   ", "\t"])
    if c == "crlf":
        return render_request("valid", rnd) + "\r"
    if c == "padded":
        return rnd.choice(["  ", "\t"]) + render_request("valid", rnd) + rnd.choice([" ", "  \t"])
    if c == "huge":
        return b64({"action": "compile", "code": {"": "# " + "x" * rnd.choice([300000, 1200000]) + "\n" + GOOD_SRC}})
    if c == "rawbytes":
        return rnd.choice([b"\xff\xfe\xfd", b"\xc3\x28 abc", b"\x80" * 40])
    if c == "surrogate":
        return b64(rnd.choice([b'{"action": "comp\\ud800ile"}', b'{"action": "compile", "code": {"": "pass"}, "options": {"x\\udc00": true}}',
                               b'{"action": "\\udfff"}']))
    if c == "nul":
        return b"\x00" + rnd.choice([b"", b"abc\x00"])
    raise MachineryError("unknown request class " + c)


def classify_reply(line):
    try:
        obj = json.loads(base64.b64decode(line, validate=True).decode("utf-8"))
    except Exception:
        return "garbage"
    if not isinstance(obj, dict):
        return "garbage"
    if "code" in obj and "error" not in obj:
        return "code"
    if "error" in obj:
        return "error"
    return "garbage"


def run_daemon(conv, rnd_seed):
    rnd = random.Random(rnd_seed)
    sent = conv["sent"]
    lines = []
    for c in sent:
        if c == "EXIT":
            lines.append("EXIT")
            lines.append(render_request("valid", rnd))  # must never be answered
        elif c == "EOF":
            break
        else:
            lines.append(render_request(c, rnd))
    raw = [l if isinstance(l, bytes) else l.encode("utf-8") for l in lines]
    data = (b"\n".join(raw) + b"\n") if raw else b""
    env = dict(os.environ)
    env["PYTHONPATH"] = os.path.join(REPO, "src")
    env.pop("PYTRAPIC_VERIF", None)
    try:
        p = subprocess.run([PY, "-m", "stationeers_pytrapic.mod_daemon"], input=data, stdout=subprocess.PIPE,
                           stderr=subprocess.PIPE, env=env, timeout=120, cwd="/")
        exited = p.returncode == 0
        stdout = p.stdout.decode("utf-8", "replace")
    except subprocess.TimeoutExpired as e:
        exited = False
        stdout = (e.stdout or b"").decode("utf-8", "replace")
    outl = stdout.split("\n")
    if outl and outl[-1] == "":
        outl = outl[:-1]
    kinds = [classify_reply(l) for l in outl]
    return {"sent": sent, "out": [k for k in kinds if k != "garbage"], "extra": any(k == "garbage" for k in kinds),
            "exited": exited, "stdin": [l if isinstance(l, str) and len(l) < 400 else repr(l)[:400] for l in lines], "stdout": [o[:400] for o in outl]}


def check_c14(tier, t0):
    d = workdir("C14")
    maxreq = 3 if tier == "thorough" else 2
    with open(os.path.join(d, "Daemon.cfg"), "w") as f:
        f.write("SPECIFICATION Spec\nCONSTANT MaxReq = %d\nINVARIANT OneReplyPerRequest\nINVARIANT StopsOnlyOnEnder\n"
                "INVARIANT NothingAfterExit\nINVARIANT Export\nPROPERTY Finishes\nCHECK_DEADLOCK FALSE\n" % maxreq)
    r = run_tlc(os.path.join(SPEC, "Daemon.tla"), os.path.join(d, "Daemon.cfg"), d, workers=4, timeout=900)
    if not r.ok:
        raise MachineryError("Daemon.tla: " + r.out[-3000:])
    convs = {json.dumps(c, sort_keys=True): c for c in tlc_exports(r, "CONV")}
    convs = [convs[k] for k in sorted(convs)]
    if tier == "quick":
        # all conversations with <= 1 request, a seeded half of those with 2
        rnd = random.Random(seed())
        small = [c for c in convs if len(c["sent"]) <= 2]
        rest = [c for c in convs if len(c["sent"]) > 2]
        rnd.shuffle(rest)
        convs = small + rest[:70]
    else:
        # the model was checked over all conversations of up to 3 requests; replayed against real daemon processes:
        # all of up to 2 requests and a seeded 1200 of the longer ones (one daemon process per conversation)
        rnd = random.Random(seed())
        small = [c for c in convs if len(c["sent"]) <= 3]
        rest = [c for c in convs if len(c["sent"]) > 3]
        rnd.shuffle(rest)
        convs = small + rest[:1200]
    if not convs:
        raise MachineryError("Daemon.tla exported no conversation")
    with ThreadPoolExecutor(16) as ex:
        obs = list(ex.map(lambda kc: run_daemon(kc[1], seed() * 100003 + kc[0]), enumerate(convs)))
    rep = Reporter("C14")
    # direction 1: the real daemon's output equals the specification's `out` for the conversation
    for c, o in zip(convs, obs):
        match = len(o["out"]) == len(c["out"]) and all(e == "any" or e == g for e, g in zip(c["out"], o["out"]))
        if not match or o["extra"] or not o["exited"]:
            clause = ("DAEMON_DID_NOT_EXIT" if not o["exited"] else "EXTRA_OUTPUT_ON_STDOUT" if o["extra"]
                      else "REPLY_COUNT_DIFFERS" if len(o["out"]) != len(c["out"]) else "REPLY_KIND_DIFFERS")
            rep.violation(["-".join(c["sent"])], clause, {"property": "C14", "conversation": c, "observed": o},
                          "conversation=%s expected=%s observed=%s extra=%s exited=%s" % (c["sent"], c["out"], o["out"], o["extra"], o["exited"]))
    # direction 2: recorded conversations are behaviours of the specification (TLC trace validation)
    mutant = dict(obs[-1])
    mutant = {"sent": ["valid", "EXIT"], "out": ["code", "code"], "extra": False, "exited": True}
    with open(os.path.join(d, "obs.json"), "w") as f:
        json.dump([{k: o[k] for k in ("sent", "out", "extra", "exited")} for o in obs] + [mutant], f)
    with open(os.path.join(d, "DaemonTrace.cfg"), "w") as f:
        f.write("SPECIFICATION TSpec\nCONSTANT MaxReq = 50\nINVARIANT OneReplyPerRequest\nINVARIANT StopsOnlyOnEnder\nCHECK_DEADLOCK FALSE\n")
    r2 = run_tlc(os.path.join(SPEC, "DaemonTrace.tla"), os.path.join(d, "DaemonTrace.cfg"), d, workers=4, timeout=900)
    if not r2.ok:
        raise MachineryError("DaemonTrace.tla: " + r2.out[-3000:])
    tv = r2.verdicts()
    if "OK" in tv.get(len(obs) + 1, {"OK"}):
        raise MachineryError("binding self-test failed: a conversation with a duplicated reply was accepted")
    for t in range(1, len(obs) + 1):
        vs = tv.get(t, set())
        if not vs:
            raise MachineryError("no trace verdict for conversation %d" % t)
        for v in vs:
            if v != "OK":
                c = convs[t - 1]
                rep.violation(["-".join(c["sent"])], v, {"property": "C14", "conversation": c, "observed": obs[t - 1]},
                              "trace rejected: conversation=%s verdict=%s" % (c["sent"], v))
    classes = sorted({x for c in convs for x in c["sent"]})
    cov = {"states": r.distinct + r2.distinct, "transitions": r.generated + r2.generated,
           "traces_validated_against_impl": len(obs), "evaluations": len(obs),
           "distinct_nontrivial": len([c for c in convs if len(c["sent"]) > 1]),
           "rule": "TLC explores Daemon.tla (client and daemon as two processes, all interleavings) with up to %d requests over 13 request "
                   "classes and both ways of ending; every complete conversation is rendered to concrete lines and run against a fresh real "
                   "daemon process (harness owns the pipes); the recorded conversations are validated as traces by DaemonTrace.tla; "
                   "non-trivial = at least one line before the end" % maxreq,
           "request_classes": classes,
           "samples": [{"sent": o["sent"], "stdin": o["stdin"], "stdout": o["stdout"]} for o in obs[-2:]],
           "exhaustive": tier == "thorough", "known_findings_hit": sorted(rep.known)}
    write_evidence("C14", tier, "model_checking", cov, time.time() - t0, violations=len(rep.violations),
                   assumptions=["request lines are ASCII/UTF-8 text (what the C# side writes); raw undecodable bytes on the pipe are not explored",
                                "reply kinds are abstracted to code/error; one fresh daemon process per conversation"])
    return rep.finish()


# ---------------------------------------------------------------------------------------
# C15 directives
# ---------------------------------------------------------------------------------------
PROBE = (corpus.HEADER + "def fa(xa):\n    return xa + 1\ndef fb(xa):\n    d3.Setting = xa\n    return fa(xa * 2)\n"
         "while True:\n    if d0.Setting > 0:\n        d1.Setting = fb(d0.Setting) + fb(2)\n    d2.Setting = HASH(\"abc\")\n    yield_()\n")


def render_tag(t, real, rnd):
    nm = real[t["name"]]
    s = nm.replace("_", t["sep"])
    if t["neg"]:
        s = "no" + t["sep"] + s
    return rnd.choice(["", " "]) + s + rnd.choice(["", " "])


def render_line(ln, real, rnd):
    tags = ",".join(render_tag(t, real, rnd) for t in ln["tags"])
    marker = "pytrapic:" + rnd.choice(["", " "]) + tags
    if ln["lead"] == "hash":
        return "#" + rnd.choice(["", " "]) + marker
    if ln["lead"] == "ihash":
        return rnd.choice(["  ", "\t", "    "]) + "# " + marker
    if ln["lead"] == "trail":
        return "zz%d = %d  # %s" % (rnd.randrange(1000), rnd.randrange(9), marker)
    if ln["lead"] == "str":
        return 'zs%d = "# %s"' % (rnd.randrange(1000), marker)
    return "# just a comment " + tags.replace(",", " ")


def check_c15(tier, t0):
    d = workdir("C15")
    rnd = random.Random(seed())
    allnames = list(cw.OPTION_NAMES)
    rnd.shuffle(allnames)
    nreal = 3 if tier == "thorough" else 2
    real = {"optA": allnames[0], "optB": allnames[1], "optC": allnames[2], "bogus": "frobnicate", "bogus2": "__class__x"}
    names = ["optA", "optB", "optC"][:nreal] + ["bogus"]
    known = names[:-1]
    model_only = None
    if tier == "thorough":
        # the design alone on the larger configuration (two lines of up to two tags each): the fold's properties are checked on
        # every text, nothing is exported (hundreds of thousands of texts: measured, the replay below could not hold them)
        with open(os.path.join(d, "PragmaBig.cfg"), "w") as f:
            f.write("SPECIFICATION Spec\nCONSTANTS\n Names = {%s}\n Known = {%s}\n MaxLines = 2\n MaxTags = 2\n"
                    "INVARIANT LastWins\nINVARIANT UnnamedUntouched\nINVARIANT InertLinesInert\nCHECK_DEADLOCK FALSE\n"
                    % (", ".join('"%s"' % n for n in names), ", ".join('"%s"' % n for n in known)))
        model_only = run_tlc(os.path.join(SPEC, "Pragma.tla"), os.path.join(d, "PragmaBig.cfg"), d, workers=8, timeout=3000)
        if not model_only.ok:
            raise MachineryError("Pragma.tla (larger configuration, model only): " + model_only.out[-3000:])
    with open(os.path.join(d, "Pragma.cfg"), "w") as f:
        f.write("SPECIFICATION Spec\nCONSTANTS\n Names = {%s}\n Known = {%s}\n MaxLines = 2\n MaxTags = 1\n"
                "INVARIANT LastWins\nINVARIANT UnnamedUntouched\nINVARIANT InertLinesInert\nINVARIANT Export\nCHECK_DEADLOCK FALSE\n"
                % (", ".join('"%s"' % n for n in names), ", ".join('"%s"' % n for n in known)))
    r = run_tlc(os.path.join(SPEC, "Pragma.tla"), os.path.join(d, "Pragma.cfg"), d, workers=8, timeout=1200)
    if not r.ok:
        raise MachineryError("Pragma.tla: " + r.out[-3000:])
    scen = {json.dumps(s, sort_keys=True): s for s in tlc_exports(r, "SCEN")}
    scen = [dict(scen[k], real=real, known=known) for k in sorted(scen)]
    if tier == "quick" and len(scen) > 1200:
        rnd.shuffle(scen)
        scen = scen[:1200]
    # second model run: every one of the eight real option names (and an unknown one), one line, one or two tags
    real8 = {"o%d" % i: n for i, n in enumerate(cw.OPTION_NAMES)}
    real8["bogus"] = "notanoption"
    names8 = sorted(real8)
    known8 = [n for n in names8 if n != "bogus"]
    with open(os.path.join(d, "Pragma8.cfg"), "w") as f:
        f.write("SPECIFICATION Spec\nCONSTANTS\n Names = {%s}\n Known = {%s}\n MaxLines = 1\n MaxTags = %d\n"
                "INVARIANT LastWins\nINVARIANT UnnamedUntouched\nINVARIANT InertLinesInert\nINVARIANT Export\nCHECK_DEADLOCK FALSE\n"
                % (", ".join('"%s"' % n for n in names8), ", ".join('"%s"' % n for n in known8), 2 if tier == "thorough" else 1))
    r8 = run_tlc(os.path.join(SPEC, "Pragma.tla"), os.path.join(d, "Pragma8.cfg"), d, workers=8, timeout=1200)
    if not r8.ok:
        raise MachineryError("Pragma.tla (8 names): " + r8.out[-3000:])
    scen8 = {json.dumps(s, sort_keys=True): s for s in tlc_exports(r8, "SCEN")}
    scen8 = [dict(scen8[k], real=real8, known=known8) for k in sorted(scen8)]
    if tier == "quick" and len(scen8) > 1500:
        one = [s for s in scen8 if sum(len(l["tags"]) for l in s["lines"]) <= 1]
        rest = [s for s in scen8 if s not in one]
        rnd.shuffle(rest)
        scen8 = one + rest[: max(0, 1500 - len(one))]
    scen = scen + scen8
    # the probe must tell the option vectors apart: measured, reported
    allvec = []
    import itertools

    for bits in itertools.product([False, True], repeat=8):
        allvec.append(dict(zip(cw.OPTION_NAMES, bits)))
    pres = cw.compile_many([{"src": PROBE, "options": v} for v in allvec])
    texts = {}
    for v, rr in zip(allvec, pres):
        if rr["raised"] or "code" not in (rr["result"] or {}):
            raise MachineryError("probe program does not compile under %s: %s" % (v, rr))
        texts.setdefault(rr["result"]["code"], []).append(v)
    distinct_outputs = len(texts)
    jobs = []
    meta = []
    for s in scen:
        lines = [render_line(ln, s["real"], rnd) for ln in s["lines"]]
        for base_name, base in (("eff_false", False), ("eff_true", True)):
            caller = {k: base for k in cw.OPTION_NAMES}
            expected = dict(caller)
            for n in s["known"]:
                expected[s["real"][n]] = bool(s[base_name][n])
            src_dir = "\n".join(lines) + ("\n" if lines else "") + PROBE
            neutral = "\n".join(("# removed" if ("pytrapic:" in l and l.lstrip().startswith("#")) else l) for l in lines) + ("\n" if lines else "") + PROBE
            jobs.append({"src": src_dir, "options": caller, "slim": True})
            jobs.append({"src": neutral, "options": expected, "slim": True})
            meta.append((s, lines, caller, expected))
    res = cw.compile_many(jobs, chunksize=32)
    rep = Reporter("C15")
    nontrivial = 0
    for k, (s, lines, caller, expected) in enumerate(meta):
        ra, rb = res[2 * k], res[2 * k + 1]
        if any(ln["lead"] in ("hash", "ihash") and ln["tags"] for ln in s["lines"]):
            nontrivial += 1
        same = (ra["raised"] is None and rb["raised"] is None and ra["result"] is not None and rb["result"] is not None
                and ra["result"].get("code") is not None and ra["result"].get("code") == rb["result"].get("code"))
        # direct observation (hook H2): the option vector in force after the scan is the specification's
        evs = [e for e in (ra["events"] or []) if e["ev"] == "opts_effective"]
        if ra["events"] is None or not evs:
            raise MachineryError("hook H2 (opts_effective) delivered nothing: is the hook commit applied and the guard on?")
        got_vec = {k: bool(v) for k, v in evs[0]["options"].items() if k in expected}
        if got_vec != expected:
            key = "|".join(ln["lead"] + ":" + ",".join(("!" if t["neg"] else "") + s["real"][t["name"]] + t["sep"] for t in ln["tags"]) for ln in s["lines"])
            rep.violation([key], "EFFECTIVE_OPTIONS_DIFFER",
                          {"property": "C15", "directive_lines": lines, "caller_options": caller, "expected_effective": expected, "observed_effective": got_vec},
                          "directive lines %r with caller %s: effective options %s, specification says %s" %
                          (lines, "all-true" if caller["compact"] else "all-false", {k: v for k, v in got_vec.items() if v != expected[k]},
                           {k: v for k, v in expected.items() if v != got_vec.get(k)}))
            continue
        if not same:
            key = "|".join(ln["lead"] + ":" + ",".join(("!" if t["neg"] else "") + t["name"] + t["sep"] for t in ln["tags"]) for ln in s["lines"])
            rep.violation([key], "RESULT_DIFFERS_FROM_API",
                          {"property": "C15", "scenario": s, "directive_lines": lines, "caller_options": caller, "expected_effective": expected,
                           "with_directives": ra, "through_api": rb, "option_names": s["real"]},
                          "directive lines %r with caller %s: result differs from API call with the specified effective options" % (lines, "all-true" if caller["compact"] else "all-false"))
    # ---- the same directive texts in the other positions a caller can put them -----------------------------
    #  (a) several source files: only the MAIN file's lines count; directive lines of a library module set nothing
    #  (b) the options argument omitted: the caller's values are the documented defaults, and stay so for the NEXT call of the process
    DEFAULTS = cw.compile_many([{"defaults": True}])[0]["defaults"]
    defaults = cw.compile_many([{"src": PROBE, "options": None}])[0]
    dev = [e for e in (defaults["events"] or []) if e["ev"] == "opts_effective"]
    if not dev:
        raise MachineryError("hook H2 delivered nothing for a call without options")
    default_vec = {k: bool(v) for k, v in dev[0]["options"].items() if k in cw.OPTION_NAMES}
    if default_vec != {k: bool(v) for k, v in DEFAULTS.items()}:
        rep.violation(["defaults"], "DEFAULT_OPTIONS_DIFFER", {"property": "C15", "observed": default_vec, "documented": DEFAULTS},
                      "compile_code(src) without options runs with %s, CompileOptions() says %s" % (default_vec, DEFAULTS))
    sub = [m for m in meta if sum(len(ln["tags"]) for ln in m[0]["lines"]) >= 1 and any(ln["lead"] in ("hash", "ihash") for ln in m[0]["lines"])]
    rnd.shuffle(sub)
    sub = sub[: (400 if tier == "thorough" else 120)]
    LIBTXT = corpus.HEADER + "def helper(xa):\n    d4.Setting = xa\n    return xa * 3\n"
    MAIN_LIB = PROBE.replace(corpus.HEADER, corpus.HEADER + "from library import lb\n", 1).replace("d2.Setting = HASH", "d5.Setting = lb.helper(d0.Setting)\n    d2.Setting = HASH")
    jobs2, meta2 = [], []
    for s_, lines, caller, expected in sub:
        dl = "\n".join(lines) + "\n"
        # same line numbers (they show in original_code_as_comment); code lines that merely mention the word stay
        neutral_dl = "".join(("# removed" if ("pytrapic:" in l and l.lstrip().startswith("#")) else l) + "\n" for l in lines)
        # (a1) directives in the library only: nothing is set
        jobs2.append({"seq": [{"src": {"": MAIN_LIB, "lb": dl + LIBTXT}, "options": caller, "slim": True}, {"src": {"": MAIN_LIB, "lb": neutral_dl + LIBTXT}, "options": caller, "slim": True}]})
        meta2.append(("library_only", lines, caller, caller))
        # (a2) directives in the main file, the opposite ones in a library listed after it: the main file's count
        jobs2.append({"seq": [{"src": {"": dl + MAIN_LIB, "lb": LIBTXT + "# pytrapic: " + ", ".join(("no-" if expected[k] else "") + k for k in cw.OPTION_NAMES) + "\n"}, "options": caller, "slim": True},
                              {"src": {"": neutral_dl + MAIN_LIB, "lb": LIBTXT}, "options": expected, "slim": True}]})
        meta2.append(("main_and_library", lines, caller, expected))
        # (b) options omitted, then a second call without directives in the same process
        jobs2.append({"seq": [{"src": dl + PROBE, "options": None, "slim": True}, {"src": PROBE, "options": None, "slim": True}]})
        meta2.append(("omitted", lines, None, None))
    res2 = cw.compile_many(jobs2, chunksize=8)
    # expected vector for (b): defaults overlaid with what the specification says the text sets; the text sets option o to b iff the
    # effective value is b under BOTH the all-false and the all-true caller (meta holds both runs of a scenario next to each other)
    sets_by_text = {}
    for s_, lines, caller, expected in meta:
        ent = sets_by_text.setdefault(tuple(lines), {})
        ent[caller["compact"]] = expected
    nextra = 0
    for (kind, lines, caller, expected), rr in zip(meta2, res2):
        first, second = rr["seq"]
        ev1 = [e for e in (first["events"] or []) if e["ev"] == "opts_effective"]
        ev2 = [e for e in (second["events"] or []) if e["ev"] == "opts_effective"]
        if not ev1 or not ev2:
            raise MachineryError("hook H2 delivered nothing in a %s scenario" % kind)
        v1 = {k: bool(v) for k, v in ev1[0]["options"].items() if k in cw.OPTION_NAMES}
        v2 = {k: bool(v) for k, v in ev2[0]["options"].items() if k in cw.OPTION_NAMES}
        nextra += 1
        if kind == "omitted":
            both = sets_by_text.get(tuple(lines), {})
            if True not in both or False not in both:
                continue
            exp1 = {k: (both[True][k] if both[True][k] == both[False][k] else DEFAULTS[k]) for k in cw.OPTION_NAMES}
            exp2 = dict(DEFAULTS)
        else:
            exp1, exp2 = expected, (caller if kind == "library_only" else expected)
        key = kind + "|" + "|".join(lines)
        if v1 != exp1:
            rep.violation([key], "EFFECTIVE_OPTIONS_DIFFER", {"property": "C15", "placement": kind, "directive_lines": lines, "caller_options": caller,
                                                             "expected_effective": exp1, "observed_effective": v1},
                          "placement=%s directive lines %r: effective options differ in %s" % (kind, lines, sorted(k for k in exp1 if exp1[k] != v1.get(k))))
        elif v2 != exp2:
            rep.violation([key], "NEXT_CALL_AFFECTED", {"property": "C15", "placement": kind, "directive_lines": lines, "expected_effective": exp2, "observed_effective": v2},
                          "placement=%s: after compiling directive lines %r the next call of the process runs with %s" % (kind, lines, sorted(k for k in exp2 if exp2[k] != v2.get(k))))
        elif kind != "omitted" and (first["result"] or {}).get("code") != (second["result"] or {}).get("code") or (first["result"] or {}).get("code") is None:
            rep.violation([key], "RESULT_DIFFERS_FROM_API", {"property": "C15", "placement": kind, "directive_lines": lines, "with_directives": first, "through_api": second},
                          "placement=%s directive lines %r: result differs from the API call with the specified effective options" % (kind, lines))
    # binding self-test: a wrong expectation must be noticed
    wrong = cw.compile_many([{"src": "# pytrapic: compact\n" + PROBE, "options": cw.opts()}, {"src": "# removed\n" + PROBE, "options": cw.opts()}])
    if wrong[0]["result"].get("code") == wrong[1]["result"].get("code"):
        raise MachineryError("binding self-test failed: the probe does not react to a directive")
    cov = {"states": r.distinct, "transitions": r.generated, "traces_validated_against_impl": len(meta), "evaluations": len(meta),
           "distinct_nontrivial": nontrivial,
           "rule": "TLC enumerates Pragma.tla: every directive text of up to 2 lines x 5 line forms x one tag over %d real option names (seeded "
                   "choice of which) + an unknown name x negation x '-'/'_' spelling, and checks the fold's properties on each; every text is rendered "
                   "(seeded blanks) onto a probe program and compiled with all-false and all-true caller options; the result must equal compiling "
                   "with the specification's effective options through the API; non-trivial = has an acting directive line with a tag; thorough: TLC also checks the fold on every "
                   "text of two lines with up to two tags each (model only), and the one-line texts over all eight names carry up to two tags" % nreal,
           "real_options_used": {k: real[k] for k in known}, "scenarios_over_all_eight_options": len(scen8), "model_only_states_two_lines_two_tags": (model_only.distinct if model_only is not None else None), "states_8": r8.distinct, "probe_distinct_outputs_over_256_vectors": distinct_outputs,
           "scenarios_in_other_placements": nextra, "placements": ["main file (string source)", "library module only", "main file + opposite directives in a library", "options argument omitted, followed by a second call"],
           "samples": [{"lines": meta[k][1], "caller": "all-false" if not meta[k][2]["compact"] else "all-true", "expected_effective": meta[k][3]} for k in (0, len(meta) // 2, len(meta) - 1)],
           "known_findings_hit": sorted(rep.known)}
    write_evidence("C15", tier, "model_checking", cov, time.time() - t0, violations=len(rep.violations),
                   assumptions=["the probe program distinguishes %d of 256 option vectors by its output; a directive bug that only moves between vectors of equal output is not seen" % distinct_outputs])
    return rep.finish()


CHECKS = {"C14": check_c14, "C15": check_c15}


# ---------------------------------------------------------------------------------------
# C11 history independence
# ---------------------------------------------------------------------------------------
CX_TIMEOUT = "Timeout during evaluating constexpr"
CX_SRC = (corpus.HEADER + "@constexpr\ndef kpack(xa, xb):\n    return xa * 256 + xb\n"
          "while True:\n    d0.Setting = kpack(3, 4) + d1.Setting\n    yield_()\n")
# the same call text `kpack(3, 4)` with another function body: a cache keyed too coarsely serves the first program's value
CX2_SRC = (corpus.HEADER + "@constexpr\ndef kpack(xa, xb):\n    return xa * 1000 + xb + 1\n"
           "while True:\n    d0.Setting = kpack(3, 4) + d1.Setting\n    yield_()\n")
FN_SRC = (corpus.HEADER + "def fa(xa):\n    return xa + 1\ndef fb(xa):\n    d3.Setting = xa\n    return fa(xa * 2)\n"
          "while True:\n    d1.Setting = fb(d0.Setting) + fb(2)\n    d2.Setting = LogicType.Temperature + Color.Red\n    yield_()\n")
SESSION_POOL = {
    "plain": {"text": corpus.HEADER + "d0.Setting = d1.Setting + 1\nd2.Mode = DisplayMode.Celsius\nd3.Setting = 1234567\n", "dir": {}, "cx": False, "fmt": True},
    # a batch object with a user-supplied NUMERIC prefab hash (the number formatter keeps a process-wide table of known hashes)
    "numhash": {"text": corpus.HEADER + "dev = Devices(1234567, 'name')\ndb.Setting = dev.Maximum.Temperature\nd0.Setting = PipeAnalysizers.Maximum.Temperature\n", "dir": {}, "cx": False, "fmt": True},
    "bighash": {"text": corpus.HEADER + 'd0.Setting = HASH("abc")\nd1.Setting = 123456\nd2.Setting = AdvancedFurnaces.Minimum.PrefabHash\n', "dir": {}, "cx": False, "fmt": True},
    "prcompact": {"text": "# pytrapic: compact\n" + corpus.HEADER + 'd0.Setting = HASH("abc")\nd1.Setting = LogicType.Pressure\n', "dir": {"compact": True}, "cx": False, "fmt": True},
    "prnoinline": {"text": "# pytrapic: no-inline-functions, remove-labels\n" + FN_SRC, "dir": {"inline_functions": False, "remove_labels": True}, "cx": False, "fmt": True},
    "functions": {"text": FN_SRC, "dir": {}, "cx": False, "fmt": True},
    "constexpr": {"text": CX_SRC, "dir": {}, "cx": True, "fmt": True},
    "constexpr2": {"text": CX2_SRC, "dir": {}, "cx": True, "fmt": True},
    "alias": {"text": corpus.HEADER + 'pa = SolarPanel(d1, alias=True)\npb = SolarPanel(d2, alias="PANEL")\npa.Horizontal = 2\npb.Horizontal = d0.Setting\n', "dir": {}, "cx": False, "fmt": True},
    "prverbose": {"text": "# pytrapic: no-compact, inline-functions\n" + FN_SRC, "dir": {"compact": False, "inline_functions": True}, "cx": False, "fmt": True},
}
SESSION_OBJS = {"oa": {"compact": False, "inline_functions": False, "remove_labels": False},
                "ob": {"compact": True, "inline_functions": True, "remove_labels": False},
                # "on": the caller passes no options at all - every call gets fresh defaults
                "on": {"compact": False, "inline_functions": True, "remove_labels": False}}
DEFAULTS = dict(original_code_as_comment=False, generated_comments=False, inline_functions=True, remove_labels=False, append_version=True,
                compact=False, tail_call_optimization=False, use_push_pop_functions=False)
SESSION_OPTS = ("compact", "inline_functions", "remove_labels")


def _full_opts(o, obj="oa"):
    d = dict(DEFAULTS) if obj == "on" else dict(cw.REF)
    d.update(o)
    return d


def _session_worker(job):
    """Replay histories in this (long-lived) process; observe the process-wide state around every call."""
    import subprocess as sp

    from stationeers_pytrapic import utils as U
    from stationeers_pytrapic.compiler import CompileOptions, compile_code

    pool, fresh = job["pool"], job["fresh"]
    spawned = []
    real_popen = sp.Popen

    class Spy(real_popen):
        def __init__(self, *a, **k):
            spawned.append(1)
            super().__init__(*a, **k)

    out = []
    sp.Popen = Spy
    try:
        for hist in job["histories"]:
            objs = {i: (CompileOptions(**_full_opts(v)) if i != "on" else None) for i, v in SESSION_OBJS.items()}
            trace = []
            for k, st in enumerate(hist):
                s, i = st["src"], st["obj"]
                o = objs[i]
                if o is None:
                    shown = CompileOptions()           # what an omitted argument means (and must keep meaning)
                    before = {n: bool(getattr(shown, n)) for n in SESSION_OPTS}
                    before_all = dict(vars(shown))
                else:
                    before = {n: bool(getattr(o, n)) for n in SESSION_OPTS}
                    before_all = dict(vars(o))
                cx0 = [sid for sid, p in pool.items() if p["cx"] and any(p["marker"] in c for c in U._eval_constexpr_cache)]
                mode0, hinit0 = U._output_mode.name, bool(U._all_hashes)
                src_arg = {"": pool[s]["text"]} if k % 2 else pool[s]["text"]
                src_copy = json.loads(json.dumps(src_arg))
                del spawned[:]
                try:
                    res = compile_code(src_arg, o) if o is not None else compile_code(src_arg)
                    raised = None
                except BaseException as e:
                    res, raised = None, repr(e)
                oo = o if o is not None else CompileOptions()
                after = {n: bool(getattr(oo, n)) for n in SESSION_OPTS}
                key = json.dumps([s, "on" if o is None else "obj"] + [before[n] for n in SESSION_OPTS])
                txt = json.dumps(res, sort_keys=True, default=repr)
                if CX_TIMEOUT in txt or fresh.get(key) == "?timeout":
                    break  # the helper process did not answer within the implementation's 1 s (machine load): the rest of this history is undecided
                same = raised is None and txt == fresh.get(key)
                trace.append({"src": s, "obj": i, "before": before, "after": after, "mode": U._output_mode.name, "hinit": bool(U._all_hashes),
                              "cache": [sid for sid, p in pool.items() if p["cx"] and any(p["marker"] in c for c in U._eval_constexpr_cache)],
                              "same": bool(same), "spawned": bool(spawned), "mode0": mode0, "hinit0": hinit0, "cache0": cx0,
                              "other_fields_changed": dict(vars(oo)) != dict(before_all, **{n: getattr(oo, n) for n in SESSION_OPTS}),
                              "source_mapping_changed": src_arg != src_copy, "raised": raised,
                              "result": res if not same else None})
            if trace:
                out.append(trace)
    finally:
        sp.Popen = real_popen
    return out


def _fresh_result(job):
    """(source, options) compiled by a brand-new interpreter."""
    code = ("import json, sys\nsys.path.insert(0, %r)\nfrom stationeers_pytrapic.compiler import compile_code, CompileOptions\n"
            "j = json.load(sys.stdin)\nprint(json.dumps(compile_code(j['src'], CompileOptions(**j['options'])), sort_keys=True, default=repr))\n"
            % os.path.join(REPO, "src"))
    env = dict(os.environ)
    env.pop("PYTRAPIC_VERIF", None)
    env.pop("PYTHONDONTWRITEBYTECODE", None)
    for attempt in range(8):
        p = subprocess.run([PY, "-c", code], input=json.dumps(job).encode(), stdout=subprocess.PIPE, stderr=subprocess.PIPE, env=env, timeout=300)
        out = p.stdout.decode().strip().splitlines()
        if p.returncode == 0 and out and CX_TIMEOUT not in out[-1]:
            return out[-1]
        time.sleep(0.5 * attempt)
    # the code under test gives its helper process 1 s; on a loaded machine that is not enough: undecided, not a verdict
    return "?timeout" if (out and CX_TIMEOUT in out[-1]) else "!fresh process failed: " + p.stderr.decode()[-300:]


def check_c11(tier, t0):
    import itertools
    import multiprocessing as mp

    d = workdir("C11")
    rep = Reporter("C11")
    maxlen = 3
    srcids = sorted(SESSION_POOL)
    if tier == "quick":
        srcids = [s for s in srcids if s not in ("prverbose",)]
    pool = {s: dict(SESSION_POOL[s], marker={"constexpr": "xa * 256 + xb", "constexpr2": "xa * 1000 + xb + 1"}.get(s, "")) for s in srcids}
    pool_json = {"sources": {s: {"dir": pool[s]["dir"], "cx": pool[s]["cx"], "fmt": pool[s]["fmt"]} for s in srcids}, "objs": SESSION_OBJS}
    with open(os.path.join(d, "pool.json"), "w") as f:
        json.dump(pool_json, f)
    consts = "CONSTANTS\n SrcIds = {%s}\n ObjIds = {%s}\n MaxLen = %d\n" % (", ".join('"%s"' % s for s in srcids), ", ".join('"%s"' % o for o in sorted(SESSION_OBJS)), maxlen)
    # the specification as required: every property holds
    with open(os.path.join(d, "Session.cfg"), "w") as f:
        f.write("SPECIFICATION Spec\n" + consts + " MutatesCaller = FALSE\nINVARIANT ResultIsFunctionOfInput\nINVARIANT ModeFollowsCall\nINVARIANT Export\n"
                "PROPERTY CallerObjectUntouched\nPROPERTY CacheOnlyGrows\nCHECK_DEADLOCK FALSE\n")
    r = run_tlc(os.path.join(SPEC, "Session.tla"), os.path.join(d, "Session.cfg"), d, workers=8, timeout=1800)
    if not r.ok:
        raise MachineryError("Session.tla: " + r.out[-3000:])
    # the pinned implementation's shape (scan writes into the caller's object): TLC must exhibit the counterexample
    with open(os.path.join(d, "SessionImpl.cfg"), "w") as f:
        f.write("SPECIFICATION Spec\n" + consts.replace("MaxLen = %d" % maxlen, "MaxLen = 2") + " MutatesCaller = TRUE\nPROPERTY CallerObjectUntouched\nCHECK_DEADLOCK FALSE\n")
    ri = run_tlc(os.path.join(SPEC, "Session.tla"), os.path.join(d, "SessionImpl.cfg"), d, workers=2, timeout=600)
    design_cex = "CallerObjectUntouched" in ri.out and not ri.ok
    hists = {json.dumps(h): h for h in tlc_exports(r, "HIST")}
    hists = [hists[k] for k in sorted(hists)]
    rnd = random.Random(seed() + 11)
    # all histories of length <= 2 are prefixes of the exported ones; take all of length 3 (quick: a seeded third) + long random ones
    if tier == "quick" and len(hists) > 500:
        rnd.shuffle(hists)
        hists = hists[:500]
    longs = [[{"src": rnd.choice(srcids), "obj": rnd.choice(sorted(SESSION_OBJS))} for _ in range(rnd.randrange(20, 60))] for _ in range(30 if tier == "thorough" else 8)]
    # fresh-process results, one per (source, options as passed)
    pairs = []
    for s in srcids:
        for bits in itertools.product([False, True], repeat=3):
            pairs.append((s, "obj", dict(zip(SESSION_OPTS, bits))))
        pairs.append((s, "on", dict(SESSION_OBJS["on"])))
    with ThreadPoolExecutor(12) as ex:
        fr = list(ex.map(_fresh_result, [{"src": pool[s]["text"], "options": _full_opts(o, "on" if kind == "on" else "oa")} for s, kind, o in pairs]))
    fresh = {json.dumps([s, kind] + [o[n] for n in SESSION_OPTS]): v for (s, kind, o), v in zip(pairs, fr)}
    bad_fresh = [k for k, v in fresh.items() if v.startswith("!")]
    if bad_fresh:
        raise MachineryError("fresh-process compilation failed for %s: %s" % (bad_fresh[0], fresh[bad_fresh[0]]))
    # replay in long-lived processes (each worker serves its histories back to back: one long history per process)
    nw = 12
    allh = hists + longs
    chunks = [allh[k::nw] for k in range(nw)]
    ctx = mp.get_context("fork")
    with ctx.Pool(nw, initializer=cw._init) as p:
        results = p.map(_session_worker, [{"pool": pool, "fresh": fresh, "histories": c} for c in chunks])
    traces = []
    for c, res in zip(chunks, results):
        traces += res
    undecided = sum(len(h) for h in allh) - sum(len(t) for t in traces)
    # harness-level observations that the model does not carry
    for tr in traces:
        for k, e in enumerate(tr):
            if e["raised"]:
                rep.violation(["raised"], "RAISED", {"property": "C11", "step": k + 1, "trace": tr[: k + 1]}, "compile_code raised %s" % e["raised"])
            if e["source_mapping_changed"]:
                rep.violation(["srcmap"], "SOURCE_MAPPING_MODIFIED", {"property": "C11", "step": k + 1, "trace": tr[: k + 1]}, "the source mapping passed in was modified")
            if e["other_fields_changed"]:
                rep.violation(["opts"], "CALLER_OPTIONS_MODIFIED", {"property": "C11", "step": k + 1, "trace": tr[: k + 1]}, "an option field outside the modelled ones was modified")
    slim = [[{k: v for k, v in e.items() if k in ("src", "obj", "before", "after", "mode", "hinit", "cache", "same", "spawned", "mode0", "hinit0", "cache0")} for e in tr] for tr in traces]
    mut = json.loads(json.dumps(slim[0]))
    mut[-1]["mode"] = "COMPACT" if mut[-1]["mode"] == "VERBOSE" else "VERBOSE"
    with open(os.path.join(d, "traces.json"), "w") as f:
        json.dump(slim + [mut], f)
    with open(os.path.join(d, "SessionTrace.cfg"), "w") as f:
        f.write("SPECIFICATION TSpec\n" + consts.replace("MaxLen = %d" % maxlen, "MaxLen = 100000") + " MutatesCaller = FALSE\nCHECK_DEADLOCK FALSE\n")
    rt = run_tlc(os.path.join(SPEC, "SessionTrace.tla"), os.path.join(d, "SessionTrace.cfg"), d, workers=8, timeout=1800)
    if not rt.ok:
        raise MachineryError("SessionTrace.tla: " + rt.out[-3000:])
    tv = rt.verdicts()
    if not any(v not in ("OK", "reported") for v in tv.get(len(slim) + 1, set())):
        raise MachineryError("binding self-test failed: SessionTrace accepted a corrupted observation (%s)" % tv.get(len(slim) + 1))
    for k in range(1, len(slim) + 1):
        vs = tv.get(k, set()) - {"reported"}
        if not vs:
            raise MachineryError("no verdict for trace %d" % k)
        for v in vs:
            if v == "OK":
                continue
            clause, _, pos = v.partition("@")
            step = traces[k - 1][int(pos) - 1] if pos.isdigit() and int(pos) <= len(traces[k - 1]) else {}
            prefix = [(e["src"], e["obj"]) for e in traces[k - 1][: int(pos)]] if pos.isdigit() else []
            dirs = sorted(pool[step.get("src", srcids[0])]["dir"]) if step else []
            rep.violation(["hist:" + "/".join("%s.%s" % p for p in prefix[-2:]), "directive-source" if dirs else "plain-source"], clause,
                          {"property": "C11", "history": prefix, "failing_step": step, "verdict": v},
                          "history %s step %s: %s" % (prefix[-3:], pos, clause))
    cov = {"states": r.distinct + rt.distinct + ri.distinct, "transitions": r.generated + rt.generated, "traces_validated_against_impl": len(slim),
           "histories_from_the_model": len(hists), "long_random_histories": len(longs), "compile_calls_replayed": sum(len(t) for t in traces),
           "fresh_process_results": len(fresh), "worker_processes": nw, "calls_undecided_helper_timeout_under_load": undecided,
           "design_counterexample_for_mutating_scan": bool(design_cex),
           "rule": "Session.tla (as required) model-checked over all histories of length <= %d over %d sources x 2 caller-held option objects; every "
                   "complete history replayed in long-lived worker processes (each worker serves hundreds of calls back to back), with seeded "
                   "histories of length 20-60; around every call the harness records the option object before/after, utils._output_mode, "
                   "the constexpr cache, the hash table flag, helper processes started and result == fresh-interpreter result for (source, "
                   "options as passed); SessionTrace.tla validates every trace step by step" % (maxlen, len(srcids)),
           "samples": [traces[0], [{k: v for k, v in e.items() if k != "result"} for e in traces[-1][:4]]],
           "binding_self_test": "corrupted mode observation rejected", "known_findings_hit": sorted(rep.known)}
    write_evidence("C11", tier, "model_checking", cov, time.time() - t0, violations=len(rep.violations),
                   assumptions=["process-wide state of compile_code = utils._output_mode, utils._eval_constexpr_cache, utils._all_hashes and the caller's option object (read off the code)",
                                "results compared as JSON text; fresh results come from new interpreters started by the harness"])
    return rep.finish()


CHECKS["C11"] = check_c11


# ---------------------------------------------------------------------------------------
# C10 compile_code always returns a verdict, promptly, and cleans up
# ---------------------------------------------------------------------------------------
OUTSIDE_DOMAIN = {("modules", "no_main"), ("modules", "main_not_text"), ("modules", "lib_not_text"), ("modules", "empty_mapping"),
                  ("options", "dict_unknown_key")}


def _texts_of(src):
    if isinstance(src, str):
        return [src]
    if isinstance(src, dict):
        return [v for v in src.values() if isinstance(v, str)]
    return []


def observe_call(rec, src):
    res = rec["result"]
    how = "hung" if rec["raised"] == "HUNG" else ("raised" if rec["raised"] else "returned")
    has_code = isinstance(res, dict) and "code" in res
    has_err = isinstance(res, dict) and "error" in res
    kind = "both" if (has_code and has_err) else "code" if has_code else "error" if has_err else "none"
    consistent = described = positioned = True
    if kind == "code":
        code = res.get("code")
        consistent = (isinstance(code, str) and all(isinstance(res.get(k), int) and not isinstance(res.get(k), bool) for k in ("num_lines", "num_bytes", "num_registers"))
                      and res["num_lines"] == len(code.splitlines()) and 0 <= res["num_registers"] <= 16
                      and res["num_bytes"] == len(code) + code.count("\n"))
    if kind == "error":
        err = res["error"]
        described = isinstance(err, dict) and isinstance(err.get("description", err.get("message")), str) and len(err.get("description", err.get("message"))) > 0
        if isinstance(err, dict) and "line" in err and err["line"] is not None:
            positioned = False
            for t in _texts_of(src):
                lines = t.split("\n")
                ln, col = err.get("line"), err.get("column")
                if isinstance(ln, int) and 1 <= ln <= len(lines) and (col is None or (isinstance(col, int) and 0 <= col <= len(lines[ln - 1]) + 1)):
                    le, ce = err.get("line_end"), err.get("column_end")
                    if le is None or (isinstance(le, int) and ln <= le <= len(lines)):
                        positioned = True
    slow = rec["wall_ms"] > 25000 + 5000 * rec["spawned"]
    return {"scanned": any(e["ev"] == "scan" for e in rec["events"]), "kids": min(rec["spawned"], 9), "how": how, "kind": kind,
            "left": rec["left_running"] + rec.get("zombies", 0), "consistent": bool(consistent), "described": bool(described),
            "positioned": bool(positioned), "slow": bool(slow)}


def check_c10(tier, t0):
    import multiprocessing as mp

    import faults

    d = workdir("C10")
    rep = Reporter("C10")
    # ---- the life-cycle model: as required it satisfies the property, in the pinned tree's shapes TLC exhibits the counterexamples
    base = "CONSTANTS\n MaxKids = 3\n"
    cfgs = {"required": (" ScanMayRaise = FALSE\n KillsOnTimeout = TRUE\n", True),
            "scan_raises": (" ScanMayRaise = TRUE\n KillsOnTimeout = TRUE\n", False),
            "no_kill": (" ScanMayRaise = FALSE\n KillsOnTimeout = FALSE\n", False)}
    states = 0
    design = {}
    for name, (c, must_hold) in cfgs.items():
        with open(os.path.join(d, "CC_%s.cfg" % name), "w") as f:
            f.write("SPECIFICATION Spec\n" + base + c + "INVARIANT NeverRaises\nINVARIANT VerdictOnReturn\nINVARIANT CleansUp\nINVARIANT Prompt\nPROPERTY Returns\nCHECK_DEADLOCK FALSE\n")
        r = run_tlc(os.path.join(SPEC, "CompileCall.tla"), os.path.join(d, "CC_%s.cfg" % name), d, workers=2, timeout=300)
        states += r.distinct
        design[name] = "holds" if r.ok else ("violated: " + ",".join(r.invariant_violated) if r.invariant_violated else "violated")
        if must_hold and not r.ok:
            raise MachineryError("CompileCall.tla (as required) does not satisfy the property:\n" + r.out[-2000:])
        if not must_hold and r.ok:
            raise MachineryError("CompileCall.tla: the %s shape was expected to violate the property" % name)
    # ---- fault classes against the real compile_code, in supervised long-lived workers
    rnd = random.Random(seed() + 10)
    ins = faults.fault_inputs(rnd, tier, corpus.repo_programs(REPO))
    warm = ("warmup", "warmup", faults.GOOD, None)
    # inputs that start helper processes run a few at a time: a helper's import must fit into the implementation's 1 s
    # limit for the constexpr body to run at all (a body that ignores SIGTERM only matters once it runs)
    cxin = [i for i in ins if i[0] == "constexpr"]
    other = [i for i in ins if i[0] != "constexpr"]
    nw = 10
    chunks = [[warm] + other[k::nw] for k in range(nw)]
    ctx = mp.get_context("fork")
    with ctx.Pool(nw, initializer=cw._init) as p:
        res = p.map(faults.run_calls, [{"inputs": c, "watchdog": 90} for c in chunks])
    cchunks = [[warm] + cxin[k::3] for k in range(3)]
    with ctx.Pool(3, initializer=cw._init) as p:
        res += p.map(faults.run_calls, [{"inputs": c, "watchdog": 45} for c in cchunks])
    chunks = chunks + cchunks
    recs, srcs = [], []
    for c, rr in zip(chunks, res):
        for inp, r in zip(c[1:], rr[1:]):
            recs.append(r)
            srcs.append(inp)
    outside = 0
    obs, meta = [], []
    for r, inp in zip(recs, srcs):
        if (r["cls"], r["name"]) in OUTSIDE_DOMAIN:
            outside += 1
            continue
        obs.append(observe_call(r, inp[2]))
        meta.append((r, inp))
    mut = dict(obs[0], left=1)
    mut2 = dict(obs[0], how="raised")
    with open(os.path.join(d, "obs.json"), "w") as f:
        json.dump(obs + [mut, mut2], f)
    with open(os.path.join(d, "CCT.cfg"), "w") as f:
        f.write("SPECIFICATION TSpec\nCONSTANTS\n MaxKids = 9\n ScanMayRaise = FALSE\n KillsOnTimeout = TRUE\nCHECK_DEADLOCK FALSE\n")
    rt = run_tlc(os.path.join(SPEC, "CompileCallTrace.tla"), os.path.join(d, "CCT.cfg"), d, workers=8, timeout=1800)
    if not rt.ok:
        raise MachineryError("CompileCallTrace.tla: " + rt.out[-3000:])
    tv = rt.verdicts()
    n = len(obs)
    if "HELPER_PROCESS_LEFT" not in tv.get(n + 1, set()) or "RAISED" not in tv.get(n + 2, set()):
        raise MachineryError("binding self-test failed: CompileCallTrace accepted corrupted observations (%s, %s)" % (tv.get(n + 1), tv.get(n + 2)))
    classes = {}
    for k in range(1, n + 1):
        vs = tv.get(k, set()) - {"reported"}
        r, inp = meta[k - 1]
        classes.setdefault(r["cls"], [0, 0])[0] += 1
        if not vs:
            vs = {"NO_MATCHING_BEHAVIOUR"}
        for v in sorted(vs):
            if v == "OK":
                continue
            classes[r["cls"]][1] += 1
            rep.violation(["%s:%s" % (r["cls"], r["name"]), r["cls"]], v,
                          {"property": "C10", "class": r["cls"], "input": r["name"], "source": inp[2], "options": inp[3], "observation": obs[k - 1],
                           "raised": r["raised"], "result": r["result"], "wall_ms": r["wall_ms"]},
                          "input %s/%s: %s (%s)" % (r["cls"], r["name"], v, (r["raised"] or "")[:80]))
    cov = {"states": states + rt.distinct, "transitions": rt.generated, "traces_validated_against_impl": n,
           "evaluations": n, "distinct_nontrivial": len({json.dumps(m[1][2], sort_keys=True, default=str) for m in meta}),
           "fault_classes": {c: v[0] for c, v in sorted(classes.items())}, "outside_domain_inputs_not_judged": outside,
           "calls_with_helper_processes": sum(1 for o in obs if o["kids"] > 0), "helper_timeouts_observed": sum(1 for m in meta if m[0]["spawned"] and m[0]["wall_ms"] >= 1000),
           "design_level": design,
           "rule": "CompileCall.tla model-checked as required (all properties hold, liveness under weak fairness) and in the two shapes found in the pinned "
                   "tree (scan raising, helper not killed: TLC exhibits the counterexamples); fault-class inputs (prefixes of real programs by line and "
                   "character, token damage, text that is not a program, unsupported constructs, undefined names / recursion / arity, directive tags "
                   "naming non-option attributes, constexpr bodies that fail / print / hang / exit / fork, several modules, option values) run through "
                   "the real compile_code in watchdog-supervised long-lived workers with Popen observed and /proc inspected; every observation "
                   "validated by CompileCallTrace.tla; distinct = distinct inputs",
           "samples": [{"class": meta[k][0]["cls"], "input": meta[k][0]["name"], "observation": obs[k]} for k in (0, n // 2, n - 1)],
           "binding_self_test": "left-over helper and raise both rejected", "known_findings_hit": sorted(rep.known)}
    write_evidence("C10", tier, "fault_enumeration", cov, time.time() - t0, violations=len(rep.violations),
                   assumptions=["sources are text (or a mapping of module name to text with a main module); option names are the eight known ones: a mapping without main module, "
                                "non-text module values and unknown option names are API misuse and not judged",
                                "'promptly' = within 25 s + 5 s per helper process on this (possibly loaded) machine after one warm-up call per worker; the watchdog is 90 s",
                                "helper processes are observed by wrapping subprocess.Popen in the worker and reading /proc/<pid>/stat after the call"])
    return rep.finish()


CHECKS["C10"] = check_c10
