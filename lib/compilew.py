"""Running the real compiler of /repo's working tree, in worker processes.

Every job is compiled by `compile_code` imported from REPO/src with the hook guard on; the
worker returns the result dictionary unchanged plus the hook events of that call."""
import json
import multiprocessing as mp
import os
import sys
import traceback

from common import GUARD, NCPU, REPO

OPTION_NAMES = [
    "original_code_as_comment",
    "generated_comments",
    "inline_functions",
    "remove_labels",
    "append_version",
    "compact",
    "tail_call_optimization",
    "use_push_pop_functions",
]
SEMANTIC = ["inline_functions", "remove_labels", "compact", "tail_call_optimization", "use_push_pop_functions"]
COMMENT = ["original_code_as_comment", "generated_comments", "append_version"]

# reference vector: labels kept, no inlining, verbose, fixed slots, no tail calls, no comments
REF = dict(
    original_code_as_comment=False,
    generated_comments=False,
    inline_functions=False,
    remove_labels=False,
    append_version=False,
    compact=False,
    tail_call_optimization=False,
    use_push_pop_functions=False,
)

HEADER = "from stationeers_pytrapic.symbols import *\n"


def opts(**kw):
    o = dict(REF)
    o.update(kw)
    return o


def vec_name(o):
    """Short name of an option vector: letters of the options that are on."""
    letters = dict(
        original_code_as_comment="o",
        generated_comments="g",
        inline_functions="I",
        remove_labels="L",
        append_version="v",
        compact="C",
        tail_call_optimization="T",
        use_push_pop_functions="P",
    )
    s = "".join(letters[k] for k in OPTION_NAMES if o.get(k))
    return s or "-"


def _init():
    os.environ[GUARD] = "1"
    src = os.path.join(REPO, "src")
    if src not in sys.path:
        sys.path.insert(0, src)
    import stationeers_pytrapic.compiler  # noqa: F401


def _compile(job):
    """job: {"src": str | {module: str}, "options": dict} -> {"result": ..., "events": [...]}"""
    from stationeers_pytrapic.compiler import CompileOptions, compile_code

    if "seq" in job:        # several compilations one after the other in ONE process: [{"src", "options"}, ...] -> {"seq": [results]}
        return {"seq": [_compile(j) for j in job["seq"]]}
    if "defaults" in job:   # the declared defaults of the option fields (not an instance anybody could have changed)
        return {"defaults": {k: bool(f.default) for k, f in CompileOptions.__dataclass_fields__.items()}}
    try:
        from stationeers_pytrapic import _verif
    except Exception:
        _verif = None
    if _verif is not None:
        _verif.reset()
    out = {"raised": None}
    try:
        if job["options"] is None:          # the options argument omitted
            res = compile_code(job["src"])
        else:
            o = CompileOptions(**job["options"])
            res = compile_code(job["src"], o)
        out["result"] = res
    except BaseException as e:  # the property (C10) says this never happens
        out["result"] = None
        out["raised"] = "%s: %s\n%s" % (type(e).__name__, e, traceback.format_exc())
    out["events"] = list(_verif.events) if _verif is not None else None
    if job.get("slim") and out["events"] is not None:
        # the caller only looks at the option vector in force (hook H2): the instruction streams of hook H1 stay in the worker
        out["events"] = [e for e in out["events"] if e["ev"] == "opts_effective"]
    try:
        json.dumps(out["result"])
    except Exception:
        out["result"] = json.loads(json.dumps(out["result"], default=repr))
    return out


_pool = None


def pool():
    global _pool
    if _pool is None:
        ctx = mp.get_context("fork")
        _pool = ctx.Pool(NCPU, initializer=_init, maxtasksperchild=400)
    return _pool


def compile_many(jobs, chunksize=8):
    """Compile all jobs in parallel worker processes; results in job order."""
    if not jobs:
        return []
    return pool().map(_compile, jobs, chunksize=chunksize)


def close_pool():
    global _pool
    if _pool is not None:
        _pool.close()
        _pool.join()
        _pool = None
