"""Tokeniser and loader: emitted IC10 text -> the instruction records of spec/IC10Core.tla.

The operand kinds come from spec/build/opsig.json, which TLC exports from
spec/IC10Grammar.tla (the specification is the source of the table).  The enum numbering
comes from the working tree's types_generated (game data, trusted; C16 checks its internal
consistency).  HASH / STR are evaluated here with zlib; spec/IC10Loader.tla evaluates the
same tokens independently inside TLC (C08) so this file is cross-checked, not trusted blindly.
"""
import json
import os
import re
import zlib
from fractions import Fraction

HERE = os.path.dirname(os.path.abspath(__file__))
OPSIG_PATH = os.path.join(HERE, "..", "spec", "build", "opsig.json")

_opsig = None
_enums = None

MAXI = 2**31 - 1


def opsig():
    global _opsig
    if _opsig is None:
        with open(OPSIG_PATH) as f:
            _opsig = json.load(f)["sig"]
    return _opsig


def enums():
    """{class name: {member name: int}} from the working tree's generated types."""
    global _enums
    if _enums is None:
        import enum as _enum
        from stationeers_pytrapic import types_generated as tg

        _enums = {}
        for name, obj in vars(tg).items():
            if isinstance(obj, type) and issubclass(obj, _enum.IntEnum) and obj is not _enum.IntEnum:
                _enums[name] = {m.name: int(m.value) for m in obj}
    return _enums


KIND_ENUM = {"LT": "LogicType", "ST": "LogicSlotType", "BM": "LogicBatchMethod", "RM": "LogicReagentMode"}

REG_RE = re.compile(r"^r(\d+)$")
NUM_RE = re.compile(r"^-?\d+(\.\d+)?$")
HEX_RE = re.compile(r"^\$[0-9A-Fa-f_]+$")
BIN_RE = re.compile(r"^%[01_]+$")
IDENT_RE = re.compile(r"^[A-Za-z_][A-Za-z0-9_.]*$")
DEVICES = ("d0", "d1", "d2", "d3", "d4", "d5", "db")


def tokenize(line):
    """Split one line into tokens; '#' starts a comment outside HASH("...")/STR("...")."""
    toks = []
    i, n = 0, len(line)
    while i < n:
        c = line[i]
        if c in " \t":
            i += 1
            continue
        if c == "#":
            break
        m = re.match(r'(HASH|STR)\("', line[i:])
        if m:
            j = line.find('")', i + len(m.group(0)))
            if j < 0:
                toks.append(line[i:].rstrip())
                break
            toks.append(line[i : j + 2])
            i = j + 2
            continue
        j = i
        while j < n and line[j] not in " \t#":
            j += 1
        toks.append(line[i:j])
        i = j
    return toks


def comment_of(line):
    """The trailing comment text (without '#'), or None."""
    i, n = 0, len(line)
    while i < n:
        m = re.match(r'(HASH|STR)\("', line[i:])
        if m:
            j = line.find('")', i + len(m.group(0)))
            if j < 0:
                return None
            i = j + 2
            continue
        if line[i] == "#":
            return line[i + 1 :]
        i += 1
    return None


def qval(fr):
    """A Fraction as a Values.tla value."""
    fr = Fraction(fr)
    if abs(fr.numerator) <= MAXI and fr.denominator <= MAXI:
        return [fr.numerator, fr.denominator]
    return ["L", f"{fr.numerator}/{fr.denominator}", ""]


def signed_crc32(s):
    v = zlib.crc32(s.encode("utf-8")) & 0xFFFFFFFF
    return v - (1 << 32) if v & 0x80000000 else v


def str_pack(s):
    v = 0
    for ch in s:
        v = (v << 8) | ord(ch)
    return v


def number_value(tok):
    """Fraction value of a numeric / HASH / STR token, or None."""
    if NUM_RE.match(tok):
        return Fraction(tok)
    if HEX_RE.match(tok):
        return Fraction(int(tok[1:].replace("_", ""), 16))
    if BIN_RE.match(tok):
        return Fraction(int(tok[1:].replace("_", ""), 2))
    if tok.startswith('HASH("') and tok.endswith('")'):
        return Fraction(signed_crc32(tok[6:-2]))
    if tok.startswith('STR("') and tok.endswith('")'):
        return Fraction(str_pack(tok[5:-2]))
    return None


def reg_index(tok):
    if tok == "sp":
        return 16
    if tok == "ra":
        return 17
    m = REG_RE.match(tok)
    if m and int(m.group(1)) <= 15:
        return int(m.group(1))
    return None


class Loader:
    def __init__(self, text):
        self.lines = text.split("\n")
        self.toks = [tokenize(l) for l in self.lines]
        self.labels = {}
        self.dup_labels = set()
        for i, t in enumerate(self.toks):
            if len(t) == 1 and t[0].endswith(":") and len(t[0]) > 1:
                name = t[0][:-1]
                if name in self.labels:
                    self.dup_labels.add(name)
                else:
                    self.labels[name] = i
        self.names = {}  # alias / define -> operand
        self.vregs = {}

    def operand(self, tok, kind):
        if tok.startswith("__register."):
            # virtual register of the pre-allocation stream (C04): one machine register each
            if tok not in self.vregs:
                self.vregs[tok] = 18 + len(self.vregs)
            return ["r", self.vregs[tok]]
        r = reg_index(tok)
        if r is not None:
            return ["r", r]
        if tok in DEVICES:
            return ["d", tok] if kind in ("D", "RD") else ["x", tok]
        v = number_value(tok)
        if v is not None:
            return ["v", qval(v)]
        if tok in self.names:
            o = self.names[tok]
            if o[0] == "d" and kind not in ("D", "RD"):
                return ["x", tok]
            return o
        if tok in self.labels:
            if tok in self.dup_labels:
                return ["x", tok]
            return ["v", [self.labels[tok], 1]]
        en = enums()
        if kind in KIND_ENUM and tok in en.get(KIND_ENUM[kind], {}):
            return ["v", [en[KIND_ENUM[kind]][tok], 1]]
        if "." in tok:
            cls, _, mem = tok.partition(".")
            if cls in en and mem in en[cls]:
                return ["v", [en[cls][mem], 1]]
        # a bare enum member name in a value position: the chip knows these names as constants;
        # resolved only when all enums that have the name agree on the number (else unresolved,
        # which makes a case inconclusive, never a violation)
        vals = {en[c][tok] for c in KIND_ENUM.values() if tok in en.get(c, {})}
        if len(vals) == 1:
            return ["v", [vals.pop(), 1]]
        return ["x", tok]

    def load(self):
        sig = opsig()
        prog = []
        for i, t in enumerate(self.toks):
            text = self.lines[i]
            if not t:
                prog.append({"op": "nop", "a": [], "ln": text})
                continue
            if len(t) == 1 and t[0].endswith(":"):
                prog.append({"op": "label", "a": [], "ln": text, "lab": t[0][:-1]})
                continue
            op, args = t[0], t[1:]
            kinds = sig.get(op)
            if kinds is None:
                prog.append({"op": op, "a": [["x", a] for a in args], "ln": text, "bad": "UNKNOWN_OPCODE"})
                continue
            ops = []
            for k, a in enumerate(args):
                kind = kinds[k] if k < len(kinds) else "N"
                if kind == "NAME":
                    ops.append(["v", [0, 1]])
                else:
                    ops.append(self.operand(a, kind))
            rec = {"op": op, "a": ops, "ln": text}
            if len(args) != len(kinds):
                rec["bad"] = "OPERAND_COUNT"
            if op in ("alias", "define") and len(args) == 2:
                tgt = self.operand(args[1], "RD" if op == "alias" else "N")
                self.names[args[0]] = tgt
                rec["a"] = []
            prog.append(rec)
        return prog


def load(text):
    return Loader(text).load()
