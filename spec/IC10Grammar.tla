----------------------------- MODULE IC10Grammar -----------------------------
(***************************************************************************)
(* Which lines are IC10: opcode signatures (OpSig) and token classes.      *)
(*                                                                         *)
(* OpSig[op] is the sequence of operand kinds the opcode takes:            *)
(*   "R"   output register              r0..r15 | sp | ra                   *)
(*   "N"   value: register or number (also a defined name)                 *)
(*   "D"   device: d0..d5 | db | alias | register or number (reference id) *)
(*   "LT"  logic type   "ST" slot type   "BM" batch mode   "RM" reagent    *)
(*         mode  (symbolic name of that enum, or a value)                  *)
(*   "T"   jump target: label | line number | register                     *)
(*   "NAME" a new identifier (alias / define)                              *)
(*   "RD"  register or device (second operand of alias)                    *)
(* The table is written from the in-game instruction reference; it is the  *)
(* oracle against which intrinsics.py and webapp/src/ic10.json are checked *)
(* (C16) and every emitted line is checked (C09).  The Python loader reads *)
(* the same table through ExportOpSig (spec/build/opsig.json).             *)
(***************************************************************************)
EXTENDS Integers, Sequences, FiniteSets, TLC, Json

Rels6 == {"eq", "ne", "lt", "le", "gt", "ge"}

Fixed ==
  [ alias |-> <<"NAME", "RD">>, define |-> <<"NAME", "N">>, hcf |-> <<>>, sleep |-> <<"N">>,
    yield |-> <<>>, rand |-> <<"R">>, lerp |-> <<"R", "N", "N", "N">>,
    clr |-> <<"D">>, clrd |-> <<"N">>, get |-> <<"R", "D", "N">>, getd |-> <<"R", "N", "N">>,
    peek |-> <<"R">>, poke |-> <<"N", "N">>, pop |-> <<"R">>, push |-> <<"N">>,
    put |-> <<"D", "N", "N">>, putd |-> <<"N", "N", "N">>,
    l |-> <<"R", "D", "LT">>, lr |-> <<"R", "D", "RM", "N">>, ls |-> <<"R", "D", "N", "ST">>,
    s |-> <<"D", "LT", "N">>, ss |-> <<"D", "N", "ST", "N">>, rmap |-> <<"R", "D", "N">>,
    lb |-> <<"R", "N", "LT", "BM">>, lbn |-> <<"R", "N", "N", "LT", "BM">>,
    lbns |-> <<"R", "N", "N", "N", "ST", "BM">>, lbs |-> <<"R", "N", "N", "ST", "BM">>,
    sb |-> <<"N", "LT", "N">>, sbn |-> <<"N", "N", "LT", "N">>, sbs |-> <<"N", "N", "ST", "N">>,
    ext |-> <<"R", "N", "N", "N">>, ins |-> <<"R", "N", "N", "N">>,
    select |-> <<"R", "N", "N", "N">>, sdns |-> <<"R", "D">>, sdse |-> <<"R", "D">>,
    j |-> <<"T">>, jal |-> <<"T">>, jr |-> <<"N">>,
    bdnvl |-> <<"D", "LT", "T">>, bdnvs |-> <<"D", "LT", "T">>,
    bdns |-> <<"D", "T">>, bdnsal |-> <<"D", "T">>, bdse |-> <<"D", "T">>, bdseal |-> <<"D", "T">>,
    brdns |-> <<"D", "N">>, brdse |-> <<"D", "N">>,
    bnan |-> <<"N", "T">>, brnan |-> <<"N", "N">>, snan |-> <<"R", "N">>, snanz |-> <<"R", "N">> ]

Unary  == {"abs", "ceil", "exp", "floor", "log", "move", "round", "sqrt", "trunc",
           "acos", "asin", "atan", "cos", "sin", "tan", "not"}
Binary == {"add", "div", "pow", "max", "min", "mod", "mul", "sub", "atan2",
           "and", "nor", "or", "sla", "sll", "sra", "srl", "xor"}

Fam ==
  [o \in Unary |-> <<"R", "N">>] @@ [o \in Binary |-> <<"R", "N", "N">>]
  @@ [o \in {"s" \o r : r \in Rels6} |-> <<"R", "N", "N">>]
  @@ [o \in {"s" \o r \o "z" : r \in Rels6} |-> <<"R", "N">>]
  @@ [o \in {"sap", "sna"} |-> <<"R", "N", "N", "N">>] @@ [o \in {"sapz", "snaz"} |-> <<"R", "N", "N">>]
  @@ [o \in {"b" \o r \o al : r \in Rels6, al \in {"", "al"}} |-> <<"N", "N", "T">>]
  @@ [o \in {"b" \o r \o "z" \o al : r \in Rels6, al \in {"", "al"}} |-> <<"N", "T">>]
  @@ [o \in {"br" \o r : r \in Rels6} |-> <<"N", "N", "N">>]
  @@ [o \in {"br" \o r \o "z" : r \in Rels6} |-> <<"N", "N">>]
  @@ [o \in {"bap", "bapal", "bna", "bnaal"} |-> <<"N", "N", "N", "T">>]
  @@ [o \in {"brap", "brna"} |-> <<"N", "N", "N", "N">>]
  @@ [o \in {"bapz", "bapzal", "bnaz", "bnazal"} |-> <<"N", "N", "T">>]
  @@ [o \in {"brapz", "brnaz"} |-> <<"N", "N", "N">>]

OpSig == Fixed @@ Fam
Opcodes == DOMAIN OpSig
HasOutput(op) == Len(OpSig[op]) > 0 /\ OpSig[op][1] = "R"

ASSUME Cardinality(Opcodes) = 147
ASSUME OpSig["lbns"] = <<"R", "N", "N", "N", "ST", "BM">> /\ OpSig["bgezal"] = <<"N", "T">>

\* written once by `check setup`; the Python loader reads it
ExportOpSig(path) == JsonSerialize(path, [sig |-> OpSig])
=============================================================================
