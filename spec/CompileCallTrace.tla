-------------------------- MODULE CompileCallTrace --------------------------
(***************************************************************************)
(* Trace validation for C10 (code -> spec).  The supervised worker         *)
(* (lib/faults.py) records per call of the real compile_code:              *)
(*   scanned   hook H2 fired (the directive scan completed)                *)
(*   kids      helper processes started (observed by wrapping Popen)       *)
(*   how       "returned" | "raised" | "hung" (watchdog)                   *)
(*   kind      "code" | "error" | "both" | "none" (keys of the result)     *)
(*   left      helper processes of this call still existing afterwards     *)
(*   consistent, positioned, described   result-shape predicates           *)
(*   slow      wall time beyond the bound for its number of helpers        *)
(* The observation must be explainable by a behaviour of CompileCall (as   *)
(* required: ScanMayRaise = FALSE, KillsOnTimeout = TRUE) that ends with   *)
(* the observed values; TLC searches the behaviours of the specification   *)
(* for one that matches (the unobserved helper outcomes are inferred).     *)
(***************************************************************************)
EXTENDS CompileCall, Json

Obs == JsonDeserialize("obs.json")
VARIABLES tid, verdict
tvars == <<vars, tid, verdict>>
O == Obs[tid]

TInit == Init /\ tid \in 1..Len(Obs) /\ verdict = ""

\* shape clauses that need no state
Shape(o) ==
  IF o.how = "hung" THEN "HUNG"
  ELSE IF o.how = "raised" THEN "RAISED"
  ELSE IF o.kind = "none" THEN "NO_VERDICT"
  ELSE IF o.kind = "both" THEN "BOTH_CODE_AND_ERROR"
  ELSE IF o.kind = "code" /\ ~o.consistent THEN "STATISTICS_INCONSISTENT"
  ELSE IF o.kind = "error" /\ ~o.described THEN "ERROR_WITHOUT_DESCRIPTION"
  ELSE IF o.kind = "error" /\ ~o.positioned THEN "POSITION_OUTSIDE_TEXT"
  ELSE IF o.slow THEN "TOO_SLOW"
  ELSE ""
\* the specification's behaviours are followed as far as the observation allows
Allowed == /\ nkids' <= O.kids
           /\ (pc' = "returned" => nkids' = O.kids /\ out' = O.kind)
Follow == /\ verdict = "" /\ Shape(O) = "" /\ Next /\ Allowed /\ UNCHANGED <<tid, verdict>>
\* a complete behaviour of the specification matches: compare what is left
Match == /\ verdict = "" /\ Shape(O) = "" /\ pc = "returned"
         /\ verdict' = (IF alive # O.left THEN "HELPER_PROCESS_LEFT" ELSE IF ~O.scanned THEN "SCAN_NOT_OBSERVED" ELSE "OK")
         /\ UNCHANGED <<vars, tid>>
Reject == /\ verdict = "" /\ Shape(O) # "" /\ verdict' = Shape(O) /\ UNCHANGED <<vars, tid>>
Report == /\ verdict \notin {"", "reported"} /\ PrintT(<<"VERDICT", tid, verdict>>)
          /\ verdict' = "reported" /\ UNCHANGED <<vars, tid>>
TSpec == TInit /\ [][Follow \/ Match \/ Reject \/ Report]_tvars
=============================================================================
