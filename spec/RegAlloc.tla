------------------------------ MODULE RegAlloc ------------------------------
(***************************************************************************)
(* The register allocator as implemented (register_assignment.py,          *)
(* IC10Register.lifetime) next to what it has to guarantee (C04).          *)
(*                                                                         *)
(* A function body is a skeleton: a sequence of lines [ind, kind, v, u]    *)
(*   "def"  v = u + const        (u a variable or the argument xn)         *)
(*   "use"  an effect that reads u                                         *)
(*   "for"  opens a loop over a constant range (its counter is a symbol)   *)
(* with Python's indentation as block structure.  A variable may be read   *)
(* once an earlier line assigns it; the argument xn is always available.   *)
(*                                                                         *)
(* As implemented: the lifetime of a symbol is ONE interval of source      *)
(* lines, from the first to the last line on which it occurs, where an     *)
(* occurrence inside loops counts as the whole INNERMOST loop around it;   *)
(* a loop counter lives for its loop's lines; symbols are coloured         *)
(* greedily in order of interval start, an interval that ended gives its   *)
(* colour back (last returned, first reused).                              *)
(* As required: two symbols that are live at the same time (data flow over *)
(* the control-flow graph, loops may run again) never share a register.    *)
(*                                                                         *)
(* TLC enumerates all skeletons of a size and exports those where the      *)
(* implemented lifetimes under-approximate liveness so that a definition   *)
(* overwrites a live value (Clobbers), with the predicted colouring; each  *)
(* is rendered to a real function, compiled, its real colouring compared   *)
(* with the prediction (hook H1) and the clobber confirmed on the product  *)
(* of the virtual-register machine and the allocated program (C04).        *)
(***************************************************************************)
EXTENDS Integers, Sequences, FiniteSets, TLC, Json, SequencesExt, FiniteSetsExt

CONSTANTS Vars,        \* variable names, e.g. {"va", "vb"}
          MaxLines,    \* generated lines (after the initialisations)
          MaxDepth

VARIABLES lines, open, must, done
vars == <<lines, open, must, done>>
NInit == 0
Line(ind, kind, v, u) == [ind |-> ind, kind |-> kind, v |-> v, u |-> u]
\* variables assigned on an earlier line (they may be read); the argument xn is always available
Defined == {lines[i].v : i \in 1..Len(lines)} \ {""}

Init == /\ lines = <<>> /\ open = 0 /\ must = FALSE /\ done = FALSE
Room == Len(lines) - NInit < MaxLines
Add(l, op2, m2) == lines' = Append(lines, l) /\ open' = op2 /\ must' = m2 /\ UNCHANGED done
Def(v, u) == ~done /\ Room /\ Add(Line(open, "def", v, u), open, FALSE)
Use(u) == ~done /\ Room /\ Add(Line(open, "use", "", u), open, FALSE)
For == ~done /\ Room /\ open < MaxDepth /\ Len(lines) - NInit + 1 < MaxLines /\ Add(Line(open, "for", "", ""), open + 1, TRUE)
Close == ~done /\ open > 0 /\ ~must /\ open' = open - 1 /\ UNCHANGED <<lines, must, done>>
Finish == ~done /\ ~must /\ Len(lines) > NInit /\ done' = TRUE /\ open' = 0 /\ UNCHANGED <<lines, must>>
\* (no `v = const`: the transpiler propagates single-assignment constants, such a variable would get no register)
Next == (\E v \in Vars, u \in Defined \cup {"xn"} : Def(v, u)) \/ (\E u \in Defined : Use(u)) \/ For \/ Close \/ Finish
Spec == Init /\ [][Next]_vars

\* ---- structure ---------------------------------------------------------------------------
N == Len(lines)
\* last line of the block opened by the `for` at line h: the lines after h with a deeper indentation
LoopEnd(h) == LET deeper == {j \in (h + 1)..N : \A q \in (h + 1)..j : lines[q].ind > lines[h].ind} IN
              IF deeper = {} THEN h ELSE Max(deeper)
Loops == {h \in 1..N : lines[h].kind = "for"}
Inside(i, h) == h < i /\ i <= LoopEnd(h)
\* the innermost loop around line i (0 if none); a `for` line belongs to its own loop
Innermost(i) == LET ls == {h \in Loops : Inside(i, h) \/ h = i} IN IF ls = {} THEN 0 ELSE Max(ls)

\* ---- lifetimes as implemented ---------------------------------------------------------------
Occ(x) == {i \in 1..N : lines[i].v = x \/ lines[i].u = x}
Extent(i) == LET h == Innermost(i) IN IF h = 0 THEN <<i, i>> ELSE <<h, LoopEnd(h)>>
\* symbols: the argument, the variables, one counter per loop
Syms == {"xn"} \cup Defined \cup {"loop" \o ToString(h) : h \in Loops}
LoopOf(s) == CHOOSE h \in Loops : s = "loop" \o ToString(h)
Start(s) == IF s = "xn" THEN 0
            ELSE IF s \in Vars THEN Min({Extent(i)[1] : i \in Occ(s)})
            ELSE LoopOf(s)
Stop(s) == IF s = "xn" THEN Max({0} \cup {Extent(i)[2] : i \in Occ("xn")}) + 1      \* half-open, as range(min, max + 1)
           ELSE IF s \in Vars THEN Max({Extent(i)[2] : i \in Occ(s)}) + 1
           ELSE LoopEnd(LoopOf(s)) + 1
\* greedy colouring in order of start; symbols that start on the same line (a variable first assigned inside a loop and
\* that loop's counter) keep the order in which the symbol table got them: named variables by first occurrence, then counters
Rank(s) == IF s = "xn" THEN 0 ELSE IF s \in Vars THEN Min(Occ(s)) ELSE 500 + LoopOf(s)
Order == SortSeq(SetToSeq(Syms), LAMBDA a, b : Start(a) * 1000 + Rank(a) < Start(b) * 1000 + Rank(b))
RECURSIVE Colour(_, _, _, _, _)
\* k: next position in Order; active: set of <<stop, colour>>; free: stack of colours (last returned on top); nxt: next fresh colour
Colour(k, active, free, nxt, acc) ==
  IF k > Len(Order) THEN acc
  ELSE LET s == Order[k]
           expired == {a \in active : a[1] <= Start(s)}
           \* expired intervals give their colours back in the order of the active list (order of assignment)
           exp == SortSeq(SetToSeq(expired), LAMBDA a, b : a[3] < b[3])
           free2 == free \o [j \in 1..Len(exp) |-> exp[j][2]]
           act2 == active \ expired
           c == IF Len(free2) > 0 THEN free2[Len(free2)] ELSE nxt
           free3 == IF Len(free2) > 0 THEN SubSeq(free2, 1, Len(free2) - 1) ELSE free2
           nxt2 == IF Len(free2) > 0 THEN nxt ELSE nxt + 1 IN
       Colour(k + 1, act2 \cup {<<Stop(s), c, k>>}, free3, nxt2, acc @@ (s :> c))
Colours == Colour(1, {}, <<>>, 0, <<>>)

\* ---- liveness as required ------------------------------------------------------------------------
\* successors in the control-flow graph (N + 1 = function exit).  Loops run over a constant non-empty range: the header
\* always enters the body; after the last line of a body the loop either runs again or is left
EndLoops(i) == {h \in Loops : LoopEnd(h) = i /\ h # i}
Succ(i) == IF lines[i].kind = "for" THEN {i + 1} ELSE {h + 1 : h \in EndLoops(i)} \cup {i + 1}
DefAt(i) == IF lines[i].kind = "def" THEN {lines[i].v} ELSE IF lines[i].kind = "for" THEN {"loop" \o ToString(i)} ELSE {}
UseAt(i) == (IF lines[i].u # "" THEN {lines[i].u} ELSE {})
            \cup {"loop" \o ToString(h) : h \in {x \in Loops : Inside(i, x) /\ LoopEnd(x) = i}}     \* increment and test after the last body line
RECURSIVE LiveIn(_, _)
\* live-in sets after k rounds of the data-flow iteration (N * |Syms| rounds reach the fixpoint)
LiveIn(k, f) == IF k = 0 THEN f
                ELSE LiveIn(k - 1, [i \in 1..N |-> UseAt(i) \cup ((UNION {IF j > N THEN {} ELSE f[j] : j \in Succ(i)}) \ DefAt(i))])
Live == LiveIn(N + 2, [i \in 1..N |-> {}])
\* a definition overwrites a value that is still needed and was given the same register
\* (col, live are passed in so that TLC computes the colouring and the fixpoint once per skeleton)
ClobbersOf(col, live) ==
  LET out(i) == UNION {IF j > N THEN {} ELSE live[j] : j \in Succ(i)} IN
  {<<i, x, y>> \in (1..N) \X Syms \X Syms : x \in DefAt(i) /\ y # x /\ y \in out(i) /\ col[x] = col[y]}
Clobbers == ClobbersOf(Colours, Live)

\* ---- export ---------------------------------------------------------------------------------------
Export == done => LET col == Colours
                      live == Live IN
                  PrintT(<<"SKEL", ToJson([lines |-> lines, colours |-> col, clobbers |-> SetToSeq(ClobbersOf(col, live)),
                                           starts |-> [s \in Syms |-> Start(s)], stops |-> [s \in Syms |-> Stop(s)]])>>)
\* design-level claim that fails for the implementation: TLC prints a smallest counterexample
NeverClobbers == done => Clobbers = {}
=============================================================================
