------------------------------ MODULE LineForm ------------------------------
(***************************************************************************)
(* What a loadable IC10 text is (C09), evaluated by TLC on every text the  *)
(* real compiler emitted.                                                  *)
(*                                                                         *)
(* The harness only splits the text into lines, a line into whitespace     *)
(* separated tokens (HASH("..")/STR("..") kept whole) and a trailing       *)
(* comment, and spells every token as character codes; the meaning of a    *)
(* token - register, device, number, label, name - and of a line - label   *)
(* definition or opcode with operands of the kinds OpSig prescribes - is   *)
(* defined here.                                                           *)
(*                                                                         *)
(* case: [lines |-> << [toks |-> << [t |-> "move", c |-> <<109,..>>] .. >>,*)
(*                      len |-> length of the whole line,                  *)
(*                      note |-> TRUE iff the comment is the version note] *)
(*                    .. >>,                                               *)
(*        labelnames |-> the names before ':' of the label lines]          *)
(* Names.json: the symbolic constants the chip knows (logic types, slot    *)
(* types, batch and reagent modes, Class.Member enum constants).           *)
(***************************************************************************)
EXTENDS IC10Grammar

Cases == JsonDeserialize("cases.json")
Names == JsonDeserialize("names.json")
ToSet(q) == {q[i] : i \in 1..Len(q)}
LTNames == ToSet(Names.lt)
STNames == ToSet(Names.st)
BMNames == ToSet(Names.bm)
RMNames == ToSet(Names.rm)
EnumConsts == ToSet(Names.qualified)
BareNames == LTNames \cup STNames \cup BMNames \cup RMNames

\* ---- characters --------------------------------------------------------------------
Digit(x) == x >= 48 /\ x <= 57
Upper(x) == x >= 65 /\ x <= 90
Lower(x) == x >= 97 /\ x <= 122
Alpha(x) == Upper(x) \/ Lower(x) \/ x = 95
HexDigit(x) == Digit(x) \/ (x >= 65 /\ x <= 70) \/ (x >= 97 /\ x <= 102)
All(c, from, P(_)) == \A i \in from..Len(c) : P(c[i])
StartsWith(c, p) == Len(c) >= Len(p) /\ SubSeq(c, 1, Len(p)) = p
EndsWith(c, p) == Len(c) >= Len(p) /\ SubSeq(c, Len(c) - Len(p) + 1, Len(c)) = p

\* ---- token classes -------------------------------------------------------------------
IsReg(c) ==
  \/ c = <<115, 112>> \/ c = <<114, 97>>                                   \* sp, ra
  \/ Len(c) = 2 /\ c[1] = 114 /\ Digit(c[2])                                \* r0..r9
  \/ Len(c) = 3 /\ c[1] = 114 /\ c[2] = 49 /\ c[3] >= 48 /\ c[3] <= 53       \* r10..r15
IsDev(c) == Len(c) = 2 /\ c[1] = 100 /\ ((c[2] >= 48 /\ c[2] <= 53) \/ c[2] = 98)   \* d0..d5, db
\* decimal: -?digits(.digits)?   (no exponent, no leading '+', no bare '.')
DotPos(c) == IF \E i \in 1..Len(c) : c[i] = 46 THEN CHOOSE i \in 1..Len(c) : c[i] = 46 /\ \A j \in 1..(i - 1) : c[j] # 46 ELSE 0
IsDec(c) ==
  LET s == IF Len(c) > 0 /\ c[1] = 45 THEN 2 ELSE 1
      d == DotPos(c) IN
  /\ Len(c) >= s
  /\ IF d = 0 THEN All(c, s, Digit)
     ELSE /\ d > s /\ d < Len(c)
          /\ \A i \in s..Len(c) : i = d \/ Digit(c[i])
IsHex(c) == Len(c) >= 2 /\ c[1] = 36 /\ All(c, 2, LAMBDA x : HexDigit(x) \/ x = 95) /\ \E i \in 2..Len(c) : HexDigit(c[i])
IsBin(c) == Len(c) >= 2 /\ c[1] = 37 /\ All(c, 2, LAMBDA x : x = 48 \/ x = 49 \/ x = 95) /\ \E i \in 2..Len(c) : c[i] # 95
IsNumber(c) == IsDec(c) \/ IsHex(c) \/ IsBin(c)
IsNatural(c) == Len(c) >= 1 /\ All(c, 1, Digit)
HASHOPEN == <<72, 65, 83, 72, 40, 34>>       \* HASH("
STROPEN == <<83, 84, 82, 40, 34>>            \* STR("
CLOSE == <<34, 41>>                          \* ")
IsHashTok(c) == StartsWith(c, HASHOPEN) /\ EndsWith(c, CLOSE) /\ Len(c) >= 8
IsStrTok(c) == StartsWith(c, STROPEN) /\ EndsWith(c, CLOSE) /\ Len(c) >= 7 /\ Len(c) <= 13   \* at most 6 characters are packed
IsIdent(c) == Len(c) >= 1 /\ Alpha(c[1]) /\ All(c, 2, LAMBDA x : Alpha(x) \/ Digit(x) \/ x = 46)
IsLabelDef(c) == Len(c) >= 2 /\ c[Len(c)] = 58 /\ IsIdent(SubSeq(c, 1, Len(c) - 1))

\* spellings that betray a transpiler-internal value
REGPFX == <<95, 95, 114, 101, 103, 105, 115, 116, 101, 114>>     \* __register
Placeholder(tk) ==
  \/ tk.t \in {"None", "True", "False", "nan", "inf", "-inf", "NaN", "Infinity", "-Infinity", "invalid", ""}
  \/ StartsWith(tk.c, REGPFX)
  \/ (~IsHashTok(tk.c) /\ ~IsStrTok(tk.c) /\ \E i \in 1..Len(tk.c) : tk.c[i] \in {60, 62, 40, 41, 91, 93, 123, 125, 44, 39, 34, 61})

\* ---- operands --------------------------------------------------------------------------
\* S: names the program itself defines: [labels, aliases, defines] (sets of strings)
\* a label is a constant (its line number) wherever a value is expected
ValueOK(tk, S) == IsReg(tk.c) \/ IsNumber(tk.c) \/ IsHashTok(tk.c) \/ IsStrTok(tk.c) \/ tk.t \in S.defines
                  \/ tk.t \in EnumConsts \/ tk.t \in BareNames \/ tk.t \in S.labels
OperandOK(kind, tk, S) ==
  CASE kind = "R" -> IsReg(tk.c)
    [] kind = "N" -> ValueOK(tk, S)
    [] kind = "D" -> IsDev(tk.c) \/ IsReg(tk.c) \/ IsNumber(tk.c) \/ tk.t \in S.aliases \/ tk.t \in S.defines \/ IsHashTok(tk.c)
    [] kind = "LT" -> tk.t \in LTNames \/ ValueOK(tk, S)
    [] kind = "ST" -> tk.t \in STNames \/ ValueOK(tk, S)
    [] kind = "BM" -> tk.t \in BMNames \/ ValueOK(tk, S)
    [] kind = "RM" -> tk.t \in RMNames \/ ValueOK(tk, S)
    [] kind = "T" -> tk.t \in S.labels \/ IsNatural(tk.c) \/ IsReg(tk.c) \/ tk.t \in S.defines
    [] kind = "NAME" -> IsIdent(tk.c) /\ ~IsReg(tk.c) /\ ~IsDev(tk.c) /\ tk.t \notin Opcodes
    [] kind = "RD" -> IsReg(tk.c) \/ IsDev(tk.c)
    [] OTHER -> FALSE

MaxLine == 90
LineVerdict(ln, S) ==
  LET tk == ln.toks IN
  IF ln.note /\ ln.len > MaxLine THEN "VERSION_NOTE_LINE_TOO_LONG"
  ELSE IF Len(tk) = 0 THEN "NEITHER_LABEL_NOR_INSTRUCTION"
  ELSE IF \E i \in 1..Len(tk) : Placeholder(tk[i]) /\ ~(Len(tk) = 1 /\ IsLabelDef(tk[1].c)) THEN "PLACEHOLDER_OR_PYTHON_SPELLING"
  ELSE IF Len(tk) = 1 /\ IsLabelDef(tk[1].c) THEN "OK"
  ELSE IF tk[1].t \notin Opcodes THEN "UNKNOWN_OPCODE"
  ELSE LET sig == OpSig[tk[1].t] IN
       IF Len(tk) - 1 # Len(sig) THEN "OPERAND_COUNT"
       ELSE IF \E k \in 1..Len(sig) : ~OperandOK(sig[k], tk[k + 1], S) THEN "OPERAND_KIND"
       ELSE "OK"

\* names the program defines: labels, alias names, define names
Defs(c) ==
  LET L == c.lines
      al == {L[i].toks[2].t : i \in {j \in 1..Len(L) : Len(L[j].toks) = 3 /\ L[j].toks[1].t = "alias"}}
      df == {L[i].toks[2].t : i \in {j \in 1..Len(L) : Len(L[j].toks) = 3 /\ L[j].toks[1].t = "define"}}
  IN [labels |-> ToSet(c.labelnames), aliases |-> al, defines |-> df]

Bad(c) == LET S == Defs(c) IN
          {<<i, LineVerdict(c.lines[i], S)>> : i \in 1..Len(c.lines)} \ {<<i, "OK">> : i \in 1..Len(c.lines)}
NoteCount(c) == Cardinality({i \in 1..Len(c.lines) : c.lines[i].note})
\* every offending line is reported (a listed finding on one line must not hide another line)
Verdict(c) == IF NoteCount(c) > 1 THEN {<<0, "SEVERAL_VERSION_NOTES">>}
              ELSE IF Bad(c) = {} THEN {<<0, "OK">>}
              ELSE Bad(c)

VARIABLES tid, verdict
Reported == {<<-1, "reported">>}
Init == tid \in 1..Len(Cases) /\ verdict = {}
Judge == verdict = {} /\ verdict' = Verdict(Cases[tid]) /\ UNCHANGED tid
Report == /\ verdict # {} /\ verdict # Reported /\ PrintT(<<"VERDICTS", tid, verdict>>)
          /\ verdict' = Reported /\ UNCHANGED tid
Spec == Init /\ [][Judge \/ Report]_<<tid, verdict>>

ASSUME IsReg(<<114, 49, 53>>) /\ ~IsReg(<<114, 49, 54>>) /\ IsReg(<<114, 97>>) /\ ~IsReg(<<114>>)
ASSUME IsDec(<<45, 49, 46, 53>>) /\ ~IsDec(<<49, 101, 45, 55>>) /\ ~IsDec(<<46, 53>>) /\ ~IsDec(<<49, 46>>) /\ IsDec(<<48>>) /\ ~IsDec(<<45>>)
ASSUME IsHex(<<36, 70, 70>>) /\ ~IsHex(<<36, 45, 49>>) /\ ~IsHex(<<36>>)
ASSUME IsDev(<<100, 98>>) /\ ~IsDev(<<100, 54>>)
=============================================================================
