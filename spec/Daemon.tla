------------------------------- MODULE Daemon -------------------------------
(***************************************************************************)
(* The compile daemon (mod_daemon.py) and its client (the game mod) as two *)
(* processes connected by two pipes (C14).                                 *)
(*                                                                         *)
(* A request line is abstracted to its class:                              *)
(*   "valid"     base64(JSON {action: compile, code: {...}}) that compiles *)
(*   "srcerr"    the same with a source the compiler rejects               *)
(*   "crash"     a source that makes a compiler pass raise internally      *)
(*   "print"     a source whose constexpr function prints                  *)
(*   "bad64"     not base64           "badjson"  base64 of non-JSON        *)
(*   "badutf"    base64 of bytes that are not UTF-8                        *)
(*   "notdict"   base64 of a JSON list / string / number                   *)
(*   "badaction" unknown action       "nocode"   no code member            *)
(*   "codestr"   code is a string instead of a module table                *)
(*   "badopts"   an unknown option name                                    *)
(*   "blank"     an empty or all-blank line (not a request)                *)
(*   "crlf"      a valid request ended by CR LF                            *)
(*   "padded"    a valid request with blanks before and after              *)
(*   "huge"      a valid request of about a megabyte                       *)
(*   "rawbytes"  bytes that are not UTF-8 text at all   "nul"  a NUL byte  *)
(*   "surrogate" an unknown action / option name holding a lone surrogate  *)
(*               (pure ASCII on the wire: a JSON \ud800 escape); the error *)
(*               reply that echoes the name must still be written          *)
(* and the client ends the conversation with "EXIT" or by closing the pipe *)
(* ("EOF").                                                                *)
(*                                                                         *)
(* The daemon's loop is one action per line read; what it writes to its    *)
(* standard output is the sequence `out` of reply classes "code"/"error".  *)
(***************************************************************************)
EXTENDS Integers, Sequences, FiniteSets, TLC, Json

CONSTANTS MaxReq        \* number of lines the client sends before it ends the conversation

Classes == {"valid", "srcerr", "crash", "print", "bad64", "badjson", "badutf", "notdict", "badaction",
            "nocode", "codestr", "badopts", "blank", "crlf", "padded", "huge", "rawbytes", "nul", "surrogate"}
Enders == {"EXIT", "EOF"}

\* "any": the property only demands one well-formed reply; whether a source whose constexpr
\* function prints compiles or is reported as an error is not the daemon's business (C10/C12)
ReplyOf(c) == IF c \in {"valid", "crlf", "padded", "huge"} THEN "code" ELSE IF c = "print" THEN "any" ELSE "error"
Matches(obs, exp) == Len(obs) = Len(exp) /\ \A k \in 1..Len(exp) : exp[k] = "any" \/ obs[k] = exp[k]
IsRequest(c) == c # "blank"

VARIABLES sent,     \* everything the client has written so far (classes, then the ender)
          pipe,     \* written and not yet read by the daemon
          consumed, \* what the daemon has read
          out,      \* the daemon's standard output, as reply classes
          dstate    \* "running" | "exited"
vars == <<sent, pipe, consumed, out, dstate>>

Init == sent = <<>> /\ pipe = <<>> /\ consumed = <<>> /\ out = <<>> /\ dstate = "running"

ClientDone == Len(sent) > 0 /\ sent[Len(sent)] \in Enders
ClientSend(c) == /\ ~ClientDone /\ Len(sent) < MaxReq
                 /\ sent' = Append(sent, c) /\ pipe' = Append(pipe, c)
                 /\ UNCHANGED <<consumed, out, dstate>>
ClientEnd(e) == /\ ~ClientDone
                /\ sent' = Append(sent, e) /\ pipe' = Append(pipe, e)
                /\ UNCHANGED <<consumed, out, dstate>>

\* one iteration of the daemon's loop
DaemonRead ==
  /\ dstate = "running" /\ pipe # <<>>
  /\ LET c == Head(pipe) IN
     /\ pipe' = Tail(pipe) /\ consumed' = Append(consumed, c)
     /\ IF c \in Enders THEN dstate' = "exited" /\ out' = out
        ELSE IF c = "blank" THEN UNCHANGED <<dstate, out>>
        ELSE dstate' = "running" /\ out' = Append(out, ReplyOf(c))
  /\ UNCHANGED sent

Next == (\E c \in Classes : ClientSend(c)) \/ (\E e \in Enders : ClientEnd(e)) \/ DaemonRead
Spec == Init /\ [][Next]_vars /\ WF_vars(DaemonRead)

Requests(s) == SelectSeq(s, LAMBDA c : c \notin Enders /\ IsRequest(c))
\* exactly one reply per non-empty request consumed, in request order, of the right kind
OneReplyPerRequest == out = [k \in 1..Len(Requests(consumed)) |-> ReplyOf(Requests(consumed)[k])]
\* faults never stop the loop: it only stops on EXIT / EOF
StopsOnlyOnEnder == dstate = "exited" => consumed[Len(consumed)] \in Enders
NothingAfterExit == dstate = "exited" => \A k \in 1..(Len(consumed) - 1) : consumed[k] \notin Enders
\* every conversation is eventually answered completely
AllAnswered == <>(dstate = "exited") => <>(Len(out) = Len(Requests(sent)))
Finishes == ClientDone ~> (dstate = "exited")

\* complete conversations, exported for replay into the real daemon
Final == dstate = "exited" /\ pipe = <<>>
Export == Final => PrintT(<<"CONV", ToJson([sent |-> sent, out |-> out])>>)
=============================================================================
