------------------------------ MODULE Compact ------------------------------
(***************************************************************************)
(* Compact output means the same as verbose output (C08).                  *)
(* A case holds the two emitted texts of one source (verbose pa, compact   *)
(* pb) after the loader resolved every token to its value; operands are    *)
(* canonical strings.  The two instruction sequences must be equal, and    *)
(* every HASH("...") token that occurred must have the signed CRC-32 of    *)
(* its bytes as value (recomputed here, independently of the loader).      *)
(***************************************************************************)
EXTENDS Integers, Sequences, TLC, Json, Crc32

Cases == JsonDeserialize("cases.json")

\* "?" marks a token the loader has no meaning for (e.g. a bare name that two enums define with
\* different numbers): such a position decides nothing
SameInstr(x, y) == x.op = y.op /\ Len(x.a) = Len(y.a) /\ \A k \in 1..Len(x.a) : x.a[k] = y.a[k] \/ x.a[k] = "?" \/ y.a[k] = "?"
Unresolved(p) == \E k \in 1..Len(p) : \E q \in 1..Len(p[k].a) : p[k].a[q] = "?"

Verdict(c) ==
  IF \E k \in 1..Len(c.hashes) : SignedCrc32(c.hashes[k].bytes) # c.hashes[k].value THEN "HASH_VALUE_WRONG"
  ELSE IF Len(c.pa) # Len(c.pb) THEN "LINE_COUNT_DIFFERS"
  ELSE IF \E k \in 1..Len(c.pa) : ~SameInstr(c.pa[k], c.pb[k]) THEN "INSTRUCTION_DIFFERS"
  ELSE IF Unresolved(c.pa) \/ Unresolved(c.pb) THEN "INCONCLUSIVE:UNRESOLVED_OPERAND"
  ELSE "OK"

VARIABLES tid, verdict
Init == tid \in 1..Len(Cases) /\ verdict = ""
Judge == verdict = "" /\ verdict' = Verdict(Cases[tid]) /\ UNCHANGED tid
Report == /\ verdict \notin {"", "reported"} /\ PrintT(<<"VERDICT", tid, verdict>>)
          /\ verdict' = "reported" /\ UNCHANGED tid
Spec == Init /\ [][Judge \/ Report]_<<tid, verdict>>
=============================================================================
