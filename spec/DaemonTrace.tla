----------------------------- MODULE DaemonTrace -----------------------------
(***************************************************************************)
(* Conversations recorded from the real daemon (the harness owns the pipes *)
(* and writes what it sent and what came back on standard output) must be  *)
(* complete behaviours of Daemon.tla: the observed output is replayed      *)
(* through the daemon's actions line by line.                              *)
(***************************************************************************)
EXTENDS Daemon

Obs == JsonDeserialize("obs.json")   \* [sent, out, exited, extra] per conversation

VARIABLES tid, l, verdict
tvars == <<vars, tid, l, verdict>>

TInit == Init /\ tid \in 1..Len(Obs) /\ l = 1 /\ verdict = ""

\* the client writes everything, then the daemon consumes line by line (the recorded order)
Feed == /\ verdict = "" /\ l <= Len(Obs[tid].sent)
        /\ LET c == Obs[tid].sent[l] IN IF c \in Enders THEN ClientEnd(c) ELSE ClientSend(c)
        /\ l' = l + 1 /\ UNCHANGED <<tid, verdict>>
Consume == /\ verdict = "" /\ l > Len(Obs[tid].sent) /\ DaemonRead /\ UNCHANGED <<tid, l, verdict>>
Judge == /\ verdict = "" /\ l > Len(Obs[tid].sent) /\ ~ENABLED DaemonRead
         /\ verdict' = (IF ~Obs[tid].exited THEN "DAEMON_DID_NOT_EXIT"
                        ELSE IF Obs[tid].extra THEN "EXTRA_OUTPUT_ON_STDOUT"
                        ELSE IF Len(Obs[tid].out) # Len(out) THEN "REPLY_COUNT_DIFFERS"
                        ELSE IF ~Matches(Obs[tid].out, out) THEN "REPLY_KIND_DIFFERS"
                        ELSE "OK")
         /\ UNCHANGED <<vars, tid, l>>
Report == /\ verdict \notin {"", "reported"} /\ PrintT(<<"VERDICT", tid, verdict>>)
          /\ verdict' = "reported" /\ UNCHANGED <<vars, tid, l>>
TSpec == TInit /\ [][Feed \/ Consume \/ Judge \/ Report]_tvars
=============================================================================
