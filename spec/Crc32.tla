------------------------------- MODULE Crc32 -------------------------------
(***************************************************************************)
(* CRC-32 (IEEE 802.3, reflected, poly 0xEDB88320) on <<hi16, lo16>> limbs *)
(* because TLC integers are 32-bit signed.  This is the meaning of         *)
(* HASH("...") on the chip; SignedCrc32 is the number the game uses.       *)
(***************************************************************************)
EXTENDS Integers, Sequences, Bitwise, SequencesExt

LOCAL Xor16(a, b) == a ^^ b
LOCAL ShiftR1(v) == <<v[1] \div 2, (v[2] \div 2) + (v[1] % 2) * 32768>>
LOCAL PolyHi == 60856  \* 0xEDB8
LOCAL PolyLo == 33568  \* 0x8320
LOCAL CrcRound(v) == IF v[2] % 2 = 1 THEN LET s == ShiftR1(v) IN <<Xor16(s[1], PolyHi), Xor16(s[2], PolyLo)>>
                     ELSE ShiftR1(v)
LOCAL CrcRounds8(v) == CrcRound(CrcRound(CrcRound(CrcRound(CrcRound(CrcRound(CrcRound(CrcRound(v))))))))
\* FoldLeft has a Java implementation in the CommunityModules: the accumulator is evaluated
\* eagerly byte by byte (a RECURSIVE definition builds one lazy chain over the whole string)
LOCAL CrcStep(v, b) == CrcRounds8(<<v[1], Xor16(v[2], b)>>)
LOCAL CrcAll(bs) == FoldLeft(CrcStep, <<65535, 65535>>, bs)
Crc32(bs) == LET r == CrcAll(bs) IN <<Xor16(r[1], 65535), Xor16(r[2], 65535)>>
\* as limbs of the signed value: <<sign, hi16, lo16>> of |v| would be awkward; a signed 32-bit
\* number fits TLC's integers exactly
SignedCrc32(bs) == LET v == Crc32(bs) IN
                   IF v[1] >= 32768 THEN (v[1] - 65536) * 65536 + v[2] ELSE v[1] * 65536 + v[2]

ASSUME Crc32(<<49, 50, 51, 52, 53, 54, 55, 56, 57>>) = <<52212, 14630>>     \* "123456789" -> 0xCBF43926
ASSUME SignedCrc32(<<83,116,114,117,99,116,117,114,101,70,117,114,110,97,99,101>>) = 1947944864 \* StructureFurnace
=============================================================================
