------------------------------- MODULE Session -------------------------------
(***************************************************************************)
(* One long-lived process serving a history of compile_code calls (C11).   *)
(*                                                                         *)
(* Process-wide mutable state that compile_code touches (read off the      *)
(* code: utils._output_mode, utils._eval_constexpr_cache,                  *)
(* utils._all_hashes) and the option objects the callers hold:             *)
(*   mode    "VERBOSE" | "COMPACT"  the output mode enum formatting reads  *)
(*   cache   set of sources whose constexpr calls have been evaluated      *)
(*   hinit   the table of known prefab hashes has been built               *)
(*   objs    caller-held option objects (object id -> option record);      *)
(*           a caller may pass the same object to several calls            *)
(*   last    [src, obj, eff, res] of the latest call (for observation)     *)
(*                                                                         *)
(* Sources are abstract classes [dir, cx, fmt]: the directives they carry  *)
(* (a partial map option -> value), whether they call a constexpr          *)
(* function, whether they format an integer above 10000.                   *)
(*                                                                         *)
(* Required behaviour (this specification): the result of a call is a      *)
(* function Res(src, eff) of the source and of the caller's options        *)
(* overridden by the source's directives - nothing else; the caller's      *)
(* object is not modified.  The constant MutatesCaller = TRUE gives the    *)
(* pinned implementation's behaviour (the directive scan writes into the   *)
(* object it was given), used to exhibit the design-level counterexample.  *)
(***************************************************************************)
EXTENDS Integers, Sequences, FiniteSets, TLC, Json

CONSTANTS SrcIds,         \* identifiers of the source pool
          ObjIds,         \* identifiers of caller-held option objects
          MaxLen,
          MutatesCaller
Pool == JsonDeserialize("pool.json")     \* [src id -> [dir |-> [option -> BOOLEAN], cx |-> BOOLEAN, fmt |-> BOOLEAN]], objs: initial values
OptNames == {"compact", "inline_functions", "remove_labels"}

VARIABLES mode, cache, hinit, objs, last, n, hist
vars == <<mode, cache, hinit, objs, last, n, hist>>

Src(s) == Pool.sources[s]
Eff(s, o) == [k \in OptNames |-> IF k \in DOMAIN Src(s).dir THEN Src(s).dir[k] ELSE o[k]]
ModeOf(o) == IF o["compact"] THEN "COMPACT" ELSE "VERBOSE"
\* the result is identified by what it may depend on
Res(s, e) == <<s, e>>

Init == /\ mode \in {"VERBOSE", "COMPACT"} /\ cache \in SUBSET {s \in SrcIds : Src(s).cx} /\ hinit \in BOOLEAN
        /\ objs = [i \in ObjIds |-> Pool.objs[i]] /\ last = <<>> /\ n = 0 /\ hist = <<>>

Compile(s, i) ==
  LET before == objs[i]
      e == Eff(s, before) IN
  /\ n < MaxLen /\ n' = n + 1 /\ hist' = Append(hist, [src |-> s, obj |-> i])
  /\ objs' = IF MutatesCaller THEN [objs EXCEPT ![i] = e] ELSE objs
  /\ mode' = ModeOf(e)                                   \* set_output_mode before compiling
  /\ cache' = IF Src(s).cx THEN cache \cup {s} ELSE cache
  /\ hinit' = (hinit \/ Src(s).fmt)
  /\ last' = [src |-> s, obj |-> i, before |-> before, eff |-> e, res |-> Res(s, e), spawned |-> (Src(s).cx /\ s \notin cache)]
Next == \E s \in SrcIds, i \in ObjIds : Compile(s, i)
Spec == Init /\ [][Next]_vars

\* ---- properties ------------------------------------------------------------------------------
\* the result depends on (source, options passed) only - in particular not on mode, cache, hinit before the call
ResultIsFunctionOfInput == last # <<>> => last.res = Res(last.src, Eff(last.src, last.before))
CallerObjectUntouched == [][\A i \in ObjIds : objs'[i] = objs[i]]_vars
ModeFollowsCall == last # <<>> => mode = ModeOf(last.eff)
CacheOnlyGrows == [][cache \subseteq cache']_vars
\* every complete history is exported and replayed in a real long-lived process
Export == n = MaxLen => PrintT(<<"HIST", ToJson(hist)>>)
=============================================================================
