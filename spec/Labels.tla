------------------------------- MODULE Labels -------------------------------
(***************************************************************************)
(* What "remove labels" means (C05).  A program text is a sequence of      *)
(* lines; a line is either a label definition [lab |-> name, toks |-> <<>>]*)
(* or an instruction [lab |-> "", toks |-> <<opcode, operand, ...>>].      *)
(*                                                                         *)
(* Resolve(kept): drop every label line; replace every operand that is a   *)
(* label name by the index (0-based) of the instruction that followed the  *)
(* label, i.e. the number of instruction lines before the label line.      *)
(* The implementation does this with word-boundary regular expressions     *)
(* over whole lines; the specification says what the result has to be,     *)
(* whatever the identifiers look like.                                     *)
(*                                                                         *)
(* Cases come from the real compiler: the same source compiled with        *)
(* labels kept and with labels removed under otherwise equal options.      *)
(***************************************************************************)
EXTENDS Integers, Sequences, FiniteSets, TLC, Json, SequencesExt

Cases == JsonDeserialize("cases.json")

IsLabel(l) == l.lab # ""
LabelNames(lines) == {lines[k].lab : k \in {j \in 1..Len(lines) : IsLabel(lines[j])}}
DefCount(lines, name) == Cardinality({k \in 1..Len(lines) : lines[k].lab = name})
\* number of instruction lines strictly before line k
InstrBefore(lines, k) == Cardinality({j \in 1..(k - 1) : ~IsLabel(lines[j])})
TargetOf(lines, name) == InstrBefore(lines, CHOOSE k \in 1..Len(lines) : lines[k].lab = name)

ResolveTok(lines, t) == IF t \in LabelNames(lines) THEN ToString(TargetOf(lines, t)) ELSE t
ResolveLine(lines, toks) == [p \in 1..Len(toks) |-> IF p = 1 THEN toks[p] ELSE ResolveTok(lines, toks[p])]
Resolve(lines) ==
  LET instr == SelectSeq(lines, LAMBDA l : ~IsLabel(l))
  IN [k \in 1..Len(instr) |-> ResolveLine(lines, instr[k].toks)]

Referenced(lines) ==
  {t \in LabelNames(lines) : \E k \in 1..Len(lines) : \E p \in 2..Len(lines[k].toks) : lines[k].toks[p] = t}

JumpOps == {"j", "jal"}
LineNumbers(n) == {ToString(i) : i \in 0..n}
\* absolute jumps of the label-free text stay inside the program (or one past the end: halt)
TargetsInRange(removed) ==
  \A k \in 1..Len(removed) :
     (Len(removed[k].toks) = 2 /\ removed[k].toks[1] \in JumpOps)
       => removed[k].toks[2] \in LineNumbers(Len(removed)) \cup {"ra"}

\* every jump/branch target that is spelled as a name is a label the text defines
\* (l.tgt = the target operand of a jump or branch line when it is an identifier, "" otherwise)
UndefinedTarget(lines) == \E k \in 1..Len(lines) : lines[k].tgt # "" /\ lines[k].tgt \notin LabelNames(lines)

\* a jump or branch (not a call) goes to a label of the function it belongs to, except a tail call, which goes to
\* the entry label of another function (l.fn = owning function of the line as exported by hook H1, "?" unknown;
\* c.entries = entry labels of the out-of-line functions)
FnOfLabel(lines, name) == lines[CHOOSE k \in 1..Len(lines) : lines[k].lab = name].fn
LeavesFunction(lines, entries) ==
  \E k \in 1..Len(lines) :
     /\ lines[k].tgt # "" /\ lines[k].tgt \in LabelNames(lines) /\ lines[k].toks[1] \notin {"jal"}
     /\ lines[k].fn # "?" /\ FnOfLabel(lines, lines[k].tgt) # "?"
     /\ FnOfLabel(lines, lines[k].tgt) # lines[k].fn
     /\ lines[k].tgt \notin entries

(***************************************************************************)
(* Relative mode (remove_labels(code, relative_numbers = TRUE); not        *)
(* reachable through an option today, specified and bound all the same).   *)
(* Every instruction that has a relative twin (j -> jr, beq -> breq, ...)  *)
(* is renamed and its label replaced by target - own line; labels that are *)
(* the target of an instruction WITHOUT a relative twin (jal) stay in the  *)
(* text as lines of their own, and - as on the chip - occupy a line.       *)
(***************************************************************************)
HasRel == {"j", "bap", "bapz", "bdns", "bdse", "beq", "beqz", "bge", "bgez", "bgt", "bgtz",
           "ble", "blez", "blt", "bltz", "bna", "bnan", "bnaz", "bne", "bnez"}
RelOf(op) == IF op = "j" THEN "jr" ELSE "br" \o SubSeq(op, 2, Len(op))
KeptRel(lines) == {lines[k].tgt : k \in {j \in 1..Len(lines) : lines[j].tgt # "" /\ lines[j].toks[1] \notin HasRel}}
Survives(lines, k) == ~IsLabel(lines[k]) \/ lines[k].lab \in KeptRel(lines)
\* 0-based line number, in the relative text, of the first surviving line at or after line k
RelIndex(lines, k) == Cardinality({j \in 1..(k - 1) : Survives(lines, j)})
RelTargetOf(lines, name) == RelIndex(lines, CHOOSE k \in 1..Len(lines) : lines[k].lab = name)
Gone(lines) == LabelNames(lines) \ KeptRel(lines)
RelLine(lines, k) ==
  LET toks == lines[k].toks
      hit  == \E p \in 2..Len(toks) : toks[p] \in Gone(lines)
  IN IF IsLabel(lines[k]) THEN <<lines[k].lab \o ":">>
     ELSE IF ~hit THEN toks
     ELSE [p \in 1..Len(toks) |->
             IF p = 1 THEN (IF toks[1] \in HasRel THEN RelOf(toks[1]) ELSE toks[1])
             ELSE IF toks[p] \in Gone(lines) THEN ToString(RelTargetOf(lines, toks[p]) - RelIndex(lines, k))
             ELSE toks[p]]
ResolveRel(lines) ==
  LET keep == SelectSeq([k \in 1..Len(lines) |-> k], LAMBDA k : Survives(lines, k))
  IN [i \in 1..Len(keep) |-> RelLine(lines, keep[i])]
RelText(rel) == [k \in 1..Len(rel) |-> IF IsLabel(rel[k]) THEN <<rel[k].lab \o ":">> ELSE rel[k].toks]
\* verdict of the relative text of a case ("" = the case carries none)
RelVerdict(c) ==
  IF "rel" \notin DOMAIN c THEN ""
  ELSE IF \E t \in Referenced(c.kept) : DefCount(c.kept, t) # 1 THEN "REL_SKIPPED_DUPLICATE_LABEL"
  ELSE IF Len(ResolveRel(c.kept)) # Len(c.rel) THEN "REL_LINE_COUNT_DIFFERS"
  ELSE IF ResolveRel(c.kept) # RelText(c.rel) THEN "REL_RESOLVE_MISMATCH"
  ELSE "REL_OK"

Verdict(c) ==
  IF UndefinedTarget(c.kept) THEN "UNDEFINED_LABEL"
  ELSE IF LeavesFunction(c.kept, {c.entries[i] : i \in 1..Len(c.entries)}) THEN "JUMP_INTO_OTHER_FUNCTION"
  ELSE IF UndefinedTarget(c.removed) THEN "NAME_LEFT_AS_TARGET"
  ELSE IF \E t \in Referenced(c.kept) : DefCount(c.kept, t) # 1 THEN "DUPLICATE_LABEL"
  ELSE IF \E k \in 1..Len(c.removed) : IsLabel(c.removed[k]) THEN "LABEL_LEFT"
  ELSE IF Len(Resolve(c.kept)) # Len(c.removed) THEN "LINE_COUNT_DIFFERS"
  ELSE IF \E k \in 1..Len(c.removed) : Resolve(c.kept)[k] # c.removed[k].toks THEN "RESOLVE_MISMATCH"
  ELSE IF ~TargetsInRange(c.removed) THEN "TARGET_OUT_OF_RANGE"
  ELSE "OK"

VARIABLES tid, verdict
Init == tid \in 1..Len(Cases) /\ verdict = ""
Judge == /\ verdict = ""
         /\ (RelVerdict(Cases[tid]) = "" \/ PrintT(<<"RELVERDICT", tid, RelVerdict(Cases[tid])>>))
         /\ verdict' = Verdict(Cases[tid]) /\ UNCHANGED tid
Report == /\ verdict \notin {"", "reported"} /\ PrintT(<<"VERDICT", tid, verdict>>)
          /\ verdict' = "reported" /\ UNCHANGED tid
Spec == Init /\ [][Judge \/ Report]_<<tid, verdict>>

(***************************************************************************)
(* Specification -> code: every small text over compiler-shaped lines and  *)
(* names that contain one another (fa, fa.b, faend, b), with what Resolve and *)
(* ResolveRel say about it, written to gen.json; lib/checks_lang.py feeds  *)
(* each text to the real remove_labels in both modes and compares.         *)
(* (configuration: SPECIFICATION GenSpec; GenLen = longest text)           *)
(***************************************************************************)
GenNames == {"fa", "fa.b", "faend", "b"}
GenLen == 4
GenLen5 == 5
GenLines ==
  {[lab |-> n, toks |-> <<>>, tgt |-> ""] : n \in GenNames}
  \cup {[lab |-> "", toks |-> <<"j", n>>, tgt |-> n] : n \in GenNames}
  \cup {[lab |-> "", toks |-> <<"jal", n>>, tgt |-> n] : n \in GenNames}
  \cup {[lab |-> "", toks |-> <<"beq", "r0", "0", n>>, tgt |-> n] : n \in GenNames}
  \cup {[lab |-> "", toks |-> <<"yield">>, tgt |-> ""]}
  \* a device name that is spelled like two of the labels: quoted text is never a label reference
  \cup {[lab |-> "", toks |-> <<"sbn", "HASH(\"fa\")", "HASH(\"b\")", "Setting", "1">>, tgt |-> ""]}
GenValid(t) == /\ \A n \in GenNames : DefCount(t, n) <= 1
               /\ ~UndefinedTarget(t)
               /\ \E k \in 1..Len(t) : t[k].tgt # ""
GenTexts == {t \in UNION {[1..n -> GenLines] : n \in 2..GenLen} : GenValid(t)}
\* labelled mode (remove_unused_labels): a label line stays exactly when some instruction names the label
LineText(l) == IF IsLabel(l) THEN <<l.lab \o ":">> ELSE l.toks
DropUnused(t) ==
  LET keep == SelectSeq(t, LAMBDA l : ~IsLabel(l) \/ l.lab \in Referenced(t))
  IN [k \in 1..Len(keep) |-> LineText(keep[k])]
GenAll == SetToSeq({[kept |-> t, abs |-> Resolve(t), rel |-> ResolveRel(t), used |-> DropUnused(t)] : t \in GenTexts})
GenInit == tid = 0 /\ verdict = "" /\ JsonSerialize("gen.json", GenAll)
GenSpec == GenInit /\ [][FALSE]_<<tid, verdict>>

\* self test of the specification itself
T1 == << [lab |-> "", toks |-> <<"j", "b">>, tgt |-> "b", fn |-> ""], [lab |-> "a", toks |-> <<>>, tgt |-> ""], [lab |-> "", toks |-> <<"yield">>, tgt |-> ""],
         [lab |-> "b", toks |-> <<>>, tgt |-> ""], [lab |-> "", toks |-> <<"jal", "a">>, tgt |-> "a"] >>
ASSUME Resolve(T1) = << <<"j", "2">>, <<"yield">>, <<"jal", "1">> >>
ASSUME DropUnused(<< T1[1], T1[2], T1[3], T1[4] >>) = << <<"j", "b">>, <<"yield">>, <<"b:">> >>
ASSUME ResolveRel(T1) = << <<"jr", "3">>, <<"a:">>, <<"yield">>, <<"jal", "a">> >>
ASSUME ~UndefinedTarget(T1) /\ UndefinedTarget(<< [lab |-> "", toks |-> <<"j", "nowhere">>, tgt |-> "nowhere"] >>)
=============================================================================
