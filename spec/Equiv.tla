-------------------------------- MODULE Equiv --------------------------------
(***************************************************************************)
(* C01: the source program (machine A, PySrc.tla) and the IC10 text the    *)
(* real compiler emitted for it (machine B, IC10Core.tla) run against one  *)
(* shared, lazily chosen device environment and must produce the same      *)
(* sequence of externally visible effects, for every environment.          *)
(*                                                                         *)
(* Scheduling, epochs, Brent divergence detection, batch verdicts: exactly *)
(* as in Equiv2.tla (A runs to its next effect, then B; equal effects end  *)
(* the epoch).  Additional verdict: KEEPS_RUNNING - the source has         *)
(* finished and the chip provably loops forever (C07).                     *)
(***************************************************************************)
EXTENDS PySrc, Json

Cases == JsonDeserialize("cases.json")

VARIABLES tid, verdict, a, b, env, pend, n, da, db, ck, ckn, ckp
vars == <<tid, verdict, a, b, env, pend, n, da, db, ck, ckn, ckp>>

J == Cases[tid]
AST == J.ast
PB == J.pb
Dom == {J.dom[k] : k \in 1..Len(J.dom)}
MaxN == J.maxn
Fuel == J.fuel

Init == /\ tid \in 1..Len(Cases) /\ verdict = ""
        /\ a = NewSrc(Cases[tid].ast) /\ b = NewMachine /\ env = <<>> /\ pend = NoEff /\ n = 0
        /\ da = FALSE /\ db = FALSE /\ ck = <<>> /\ ckn = 0 /\ ckp = 1

QuietA == a.st # "run" \/ da
QuietB == b.st # "run" \/ db
Budget == MaxN = 0 \/ n < MaxN
\* once a machine is in an error state the case is judged, nothing runs any more
NoErr == a.st # "err" /\ b.st # "err"
ATurn == pend = NoEff /\ ~QuietA /\ Budget /\ NoErr
BTurn == ~ATurn /\ ~QuietB /\ Budget /\ (pend # NoEff \/ QuietA) /\ NoErr

Sink(v) == /\ verdict' = v /\ tid' = tid /\ a' = [k |-> <<>>, g |-> NoVars, locs |-> <<>>, mem |-> <<>>, st |-> "halt", why |-> ""]
           /\ b' = NewMachine /\ env' = <<>>
           /\ pend' = NoEff /\ n' = 0 /\ da' = FALSE /\ db' = FALSE /\ ck' = <<>> /\ ckn' = 0 /\ ckp' = 1

DiffSym(e, f) == e[1] = f[1] /\ \A k \in 2..6 : e[k] = f[k] \/ IsSym(e[k]) \/ IsSym(f[k])

Snap == IF ATurn THEN <<"a", a, env>> ELSE <<"b", b, env>>
BrentReset == ck' = <<>> /\ ckn' = 0 /\ ckp' = 1
BrentTick == IF ckn + 1 = ckp THEN ck' = Snap /\ ckn' = 0 /\ ckp' = 2 * ckp
             ELSE ck' = ck /\ ckn' = ckn + 1 /\ ckp' = ckp

InconclusiveB(why) == why \in {"SYMBOLIC_BRANCH", "UNRESOLVED_OPERAND", "UNSUPPORTED_INSTRUCTION"}
\* situations the dialect gives no meaning to (the generators stay away from them)
InconclusiveA(why) == why \in {"SYMBOLIC_BRANCH", "UNBOUND_NAME", "LIST_INDEX_OUTSIDE", "RANGE_STEP_ZERO", "CALL_DEPTH",
                               "UNSUPPORTED_NODE", "STACK_RANGE"}

StepA ==
  /\ verdict = "" /\ ATurn /\ Snap # ck /\ ckp <= Fuel
  /\ \E r \in SrcSucc(AST, a, env, Dom) :
       /\ a' = r.m /\ env' = r.env /\ pend' = r.eff
       /\ IF r.eff # NoEff THEN BrentReset ELSE BrentTick
  /\ UNCHANGED <<tid, verdict, b, n, da, db>>

DivergeA ==
  /\ verdict = "" /\ ATurn /\ Snap = ck
  /\ da' = TRUE /\ BrentReset
  /\ UNCHANGED <<tid, verdict, a, b, env, pend, n, db>>

StepB ==
  /\ verdict = "" /\ BTurn /\ Snap # ck /\ ckp <= Fuel
  /\ \E r \in IcSuccMon(PB, b, env, Dom) :
       IF r.eff = NoEff THEN
            /\ b' = r.m /\ env' = r.env /\ BrentTick
            /\ UNCHANGED <<tid, verdict, a, pend, n, da, db>>
       ELSE IF pend = NoEff THEN Sink(IF a.st = "halt" THEN "EFFECT_AFTER_SOURCE_ENDED" ELSE "EXTRA_EFFECT_B")
       ELSE IF r.eff = pend THEN
            /\ b' = r.m /\ env' = ClearEpoch(r.env) /\ pend' = NoEff
            /\ n' = (IF MaxN = 0 THEN 0 ELSE n + 1) /\ BrentReset
            /\ UNCHANGED <<tid, verdict, a, da, db>>
       ELSE IF DiffSym(r.eff, pend) THEN Sink("INCONCLUSIVE:INEXACT")
       ELSE Sink("EFFECT_MISMATCH")

DivergeB ==
  /\ verdict = "" /\ BTurn /\ Snap = ck
  /\ db' = TRUE /\ BrentReset
  /\ UNCHANGED <<tid, verdict, a, b, env, pend, n, da>>

Judge ==
  /\ verdict = ""
  /\ \/ a.st = "err" /\ Sink((IF InconclusiveA(a.why) THEN "INCONCLUSIVE:A:" ELSE "FAULT_A:") \o a.why)
     \/ b.st = "err" /\ Sink((IF InconclusiveB(b.why) THEN "INCONCLUSIVE:B:" ELSE IF a.st = "halt" /\ pend = NoEff THEN "FAULT_AFTER_SOURCE_ENDED:" ELSE "FAULT_B:") \o b.why)
     \/ b.mv # "" /\ Sink("MON_B:" \o b.mv)
     \/ a.st # "err" /\ b.st # "err" /\ pend # NoEff /\ QuietB /\ Sink("MISSING_EFFECT_B")
     \/ a.st = "halt" /\ pend = NoEff /\ db /\ Sink("KEEPS_RUNNING")
     \/ da /\ pend = NoEff /\ b.st = "halt" /\ Sink("STOPS_WHILE_SOURCE_LOOPS")
     \/ (ATurn \/ BTurn) /\ Snap # ck /\ ckp > Fuel /\ Sink("INCONCLUSIVE:FUEL")

Report ==
  /\ verdict # "" /\ verdict # "reported"
  /\ PrintT(<<"VERDICT", tid, verdict>>)
  /\ verdict' = "reported"
  /\ UNCHANGED <<tid, a, b, env, pend, n, da, db, ck, ckn, ckp>>

Next == StepA \/ DivergeA \/ StepB \/ DivergeB \/ Judge \/ Report
Spec == Init /\ [][Next]_vars
NoVerdict == verdict = ""
=============================================================================
