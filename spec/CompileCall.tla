----------------------------- MODULE CompileCall -----------------------------
(***************************************************************************)
(* One call of compile_code with its helper processes (C10).               *)
(*                                                                         *)
(* pc     "start" -> "scanned" -> "compiling" -> "returned"                *)
(*        ("raised": an exception left compile_code - forbidden)           *)
(* out    "none" | "code" | "error"   what the returned dictionary holds   *)
(* child  state of the current constexpr helper process                    *)
(*        "none" | "running" | "done"                                      *)
(* alive  helper processes of this call that still exist                   *)
(* nkids  helper processes started so far                                  *)
(* ticks  upper bound on the time spent, in units of the helper timeout    *)
(*                                                                         *)
(* The steps between the observable points (parsing, the compiler passes,  *)
(* conversion of exceptions to error dictionaries) are internal to Finish. *)
(* Constants switch between the behaviour the property requires and the    *)
(* shapes found in the pinned tree:                                        *)
(*   ScanMayRaise   the directive scan can raise (setattr on any attribute)*)
(*   KillsOnTimeout a helper that exceeds its time limit is killed+reaped  *)
(***************************************************************************)
EXTENDS Integers, Sequences, TLC

CONSTANTS MaxKids, ScanMayRaise, KillsOnTimeout

VARIABLES pc, out, child, alive, nkids, ticks
vars == <<pc, out, child, alive, nkids, ticks>>

Init == pc = "start" /\ out = "none" /\ child = "none" /\ alive = 0 /\ nkids = 0 /\ ticks = 0

Scan == /\ pc = "start" /\ pc' = "scanned" /\ UNCHANGED <<out, child, alive, nkids, ticks>>
ScanRaises == /\ ScanMayRaise /\ pc = "start" /\ pc' = "raised" /\ UNCHANGED <<out, child, alive, nkids, ticks>>
Begin == /\ pc = "scanned" /\ pc' = "compiling" /\ UNCHANGED <<out, child, alive, nkids, ticks>>
Spawn == /\ pc = "compiling" /\ child \in {"none", "done"} /\ nkids < MaxKids
         /\ child' = "running" /\ alive' = alive + 1 /\ nkids' = nkids + 1 /\ UNCHANGED <<pc, out, ticks>>
\* the helper answers in time (communicate() reaps it); its answer may still be unusable -> the call goes on or fails
ChildExit == /\ pc = "compiling" /\ child = "running"
             /\ child' = "done" /\ alive' = alive - 1 /\ UNCHANGED <<pc, out, nkids, ticks>>
\* the helper exceeds its time limit: the call ends with an error
ChildTimeout == /\ pc = "compiling" /\ child = "running"
                /\ child' = "done" /\ alive' = (IF KillsOnTimeout THEN alive - 1 ELSE alive)
                /\ ticks' = ticks + 1 /\ pc' = "returned" /\ out' = "error" /\ UNCHANGED nkids
Finish(kind) == /\ pc = "compiling" /\ child # "running"
                /\ pc' = "returned" /\ out' = kind /\ UNCHANGED <<child, alive, nkids, ticks>>
Next == Scan \/ ScanRaises \/ Begin \/ Spawn \/ ChildExit \/ ChildTimeout \/ Finish("code") \/ Finish("error")
Spec == Init /\ [][Next]_vars /\ WF_vars(Next)

\* ---- the property ----------------------------------------------------------------------
NeverRaises == pc # "raised"
VerdictOnReturn == pc = "returned" => out \in {"code", "error"}
CleansUp == pc = "returned" => alive = 0
Prompt == ticks <= 1                                  \* at most one helper runs into its limit per call
Returns == <>(pc = "returned")
=============================================================================
