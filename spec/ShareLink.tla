------------------------------ MODULE ShareLink ------------------------------
(***************************************************************************)
(* Share links (C18): types.encode_data / types.decode_data and the trip   *)
(* of the encoded text through the page's URL.                             *)
(*                                                                         *)
(* The implementation is a pipeline; each step is one action here so that  *)
(* a change to any single step is visible:                                 *)
(*   raw --B64Enc--> b64 --ReplPlus--> e1 --ReplSlash--> e2 --StripPad-->  *)
(*   enc --UrlTransit--> url --Pad--> pad --UnMinus--> d1 --UnUnder--> d2  *)
(*   --B64Dec--> dec                                                       *)
(* `raw` is the byte string that zlib.compress(json.dumps(d).encode())     *)
(* produced, `dec` the byte string handed to zlib.decompress.  json and    *)
(* zlib are standard-library inverses of each other and are not modelled   *)
(* (trusted); the property locates the risk in the alphabet/padding layer, *)
(* which is modelled completely.                                           *)
(*                                                                         *)
(* Characters are ASCII codes.  UrlTransit is what                         *)
(* URL.searchParams.set -> toString -> searchParams.get does to a value:   *)
(* the identity on unreserved characters, but a literal '+' comes back as  *)
(* a space and '=' / '/' are percent-escaped and restored (identity).      *)
(* The hazard "URL-safe" protects against is therefore '+'.                *)
(***************************************************************************)
EXTENDS Integers, Sequences, FiniteSets, TLC, Json, SequencesExt

CONSTANTS ByteSet, MaxLen

PLUS == 43   SLASH == 47   MINUS == 45   UNDER == 95   EQ == 61   SPACE == 32

Std(k) == IF k < 26 THEN 65 + k ELSE IF k < 52 THEN 97 + (k - 26) ELSE IF k < 62 THEN 48 + (k - 52)
          ELSE IF k = 62 THEN PLUS ELSE SLASH
IsStd(c) == (c >= 65 /\ c <= 90) \/ (c >= 97 /\ c <= 122) \/ (c >= 48 /\ c <= 57) \/ c = PLUS \/ c = SLASH
StdInv(c) == IF c >= 65 /\ c <= 90 THEN c - 65 ELSE IF c >= 97 /\ c <= 122 THEN c - 97 + 26
             ELSE IF c >= 48 /\ c <= 57 THEN c - 48 + 52 ELSE IF c = PLUS THEN 62 ELSE 63
IsUrlSafe(c) == (c >= 65 /\ c <= 90) \/ (c >= 97 /\ c <= 122) \/ (c >= 48 /\ c <= 57) \/ c = MINUS \/ c = UNDER
UrlSafe(s) == \A i \in 1..Len(s) : IsUrlSafe(s[i])

Replace(s, a, b) == [i \in 1..Len(s) |-> IF s[i] = a THEN b ELSE s[i]]
Without(s, a) == SelectSeq(s, LAMBDA c : c # a)
Times(c, n) == [i \in 1..n |-> c]

\* RFC 4648 base64 with padding (base64.b64encode)
B64Encode(bs) ==
  LET n == Len(bs)
      g == (n + 2) \div 3
      B(k) == IF k <= n THEN bs[k] ELSE 0
      Ch(i) == LET j == (i - 1) \div 4
                   p == (i - 1) % 4
                   b0 == B(3 * j + 1)
                   b1 == B(3 * j + 2)
                   b2 == B(3 * j + 3)
                   have == n - 3 * j
               IN IF p = 0 THEN Std(b0 \div 4)
                  ELSE IF p = 1 THEN Std((b0 % 4) * 16 + (b1 \div 16))
                  ELSE IF p = 2 THEN (IF have >= 2 THEN Std((b1 % 16) * 4 + (b2 \div 64)) ELSE EQ)
                  ELSE (IF have >= 3 THEN Std(b2 % 64) ELSE EQ)
  IN [i \in 1..(4 * g) |-> Ch(i)]

\* base64.b64decode without validate: characters outside the alphabet are discarded, the
\* total of alphabet characters and '=' must be a multiple of 4 ("Incorrect padding" otherwise)
DecErr == <<-1>>
B64Decode(s) ==
  LET core == SelectSeq(s, IsStd)
      npad == Len(SelectSeq(s, LAMBDA c : c = EQ))
      q == Len(core)
      V(k) == IF k <= q THEN StdInv(core[k]) ELSE 0
      nb == (q * 6) \div 8
      Byte(i) == LET j == (i - 1) \div 3
                     p == (i - 1) % 3
                     v0 == V(4 * j + 1)
                     v1 == V(4 * j + 2)
                     v2 == V(4 * j + 3)
                     v3 == V(4 * j + 4)
                 IN IF p = 0 THEN v0 * 4 + (v1 \div 16)
                    ELSE IF p = 1 THEN (v1 % 16) * 16 + (v2 \div 4)
                    ELSE (v2 % 4) * 64 + v3
  IN IF q % 4 = 1 \/ (q % 4 # 0 /\ (q + npad) % 4 # 0) THEN DecErr ELSE [i \in 1..nb |-> Byte(i)]

\* what a URL query round trip does to a parameter value (form decoding of '+')
UrlTransit(s) == Replace(s, PLUS, SPACE)

Pad(s) == IF Len(s) % 4 # 0 THEN s \o Times(EQ, 4 - (Len(s) % 4)) ELSE s

\* the two functions as compositions (used by the trace module and by ASSUMEs)
Encode(bs) == Without(Replace(Replace(B64Encode(bs), PLUS, MINUS), SLASH, UNDER), EQ)
Decode(s) == B64Decode(Replace(Replace(Pad(s), MINUS, PLUS), UNDER, SLASH))

\* ---- the pipeline as a state machine ------------------------------------------------
VARIABLES input, s, phase, enc
vars == <<input, s, phase, enc>>

RECURSIVE SeqsUpTo(_)
SeqsUpTo(n) == IF n = 0 THEN {<<>>} ELSE LET P == SeqsUpTo(n - 1) IN
               P \cup {Append(x, b) : x \in {y \in P : Len(y) = n - 1}, b \in ByteSet}
Inputs == SeqsUpTo(MaxLen)

Init == input \in Inputs /\ s = input /\ phase = "raw" /\ enc = <<>>

Step(from, to, f(_)) == phase = from /\ phase' = to /\ s' = f(s) /\ UNCHANGED input
B64Enc    == Step("raw", "b64", B64Encode) /\ UNCHANGED enc
ReplPlus  == Step("b64", "e1", LAMBDA x : Replace(x, PLUS, MINUS)) /\ UNCHANGED enc
ReplSlash == Step("e1", "e2", LAMBDA x : Replace(x, SLASH, UNDER)) /\ UNCHANGED enc
StripPad  == Step("e2", "enc", LAMBDA x : Without(x, EQ)) /\ enc' = Without(s, EQ)
Transit   == Step("enc", "url", UrlTransit) /\ UNCHANGED enc
AddPad    == Step("url", "pad", Pad) /\ UNCHANGED enc
UnMinus   == Step("pad", "d1", LAMBDA x : Replace(x, MINUS, PLUS)) /\ UNCHANGED enc
UnUnder   == Step("d1", "d2", LAMBDA x : Replace(x, UNDER, SLASH)) /\ UNCHANGED enc
B64Dec    == Step("d2", "dec", B64Decode) /\ UNCHANGED enc
Next == B64Enc \/ ReplPlus \/ ReplSlash \/ StripPad \/ Transit \/ AddPad \/ UnMinus \/ UnUnder \/ B64Dec
Spec == Init /\ [][Next]_vars

\* ---- properties ----------------------------------------------------------------------
EncodedIsUrlSafe == phase = "enc" => UrlSafe(s)
TransitHarmless == phase = "url" => s = enc
RoundTrip == phase = "dec" => s = input
PaddingRestored == phase = "pad" => Len(s) % 4 = 0
\* the compositions agree with the pipeline
Compositional == (phase = "enc" => s = Encode(input)) /\ (phase = "dec" => s = Decode(enc))
\* every complete behaviour is exported and replayed into the real functions
Export == phase = "dec" => PrintT(<<"SCEN", ToJson([raw |-> input, enc |-> enc])>>)

ASSUME B64Encode(<<77, 97, 110>>) = <<84, 87, 70, 117>>                 \* "Man" -> "TWFu"
ASSUME B64Encode(<<77, 97>>) = <<84, 87, 69, 61>>                       \* "Ma" -> "TWE="
ASSUME B64Encode(<<77>>) = <<84, 81, 61, 61>>                           \* "M" -> "TQ=="
ASSUME B64Decode(<<84, 87, 69, 61>>) = <<77, 97>> /\ B64Decode(<<84, 81, 61, 61>>) = <<77>>
ASSUME B64Decode(<<84, 87, 69>>) = DecErr
ASSUME Encode(<<251, 239, 190>>) = <<45, 45, 45, 45>> /\ Encode(<<255, 255, 255>>) = <<95, 95, 95, 95>>
=============================================================================
