------------------------------ MODULE Lockstep ------------------------------
(***************************************************************************)
(* Register allocation as a simulation relation (C04).                     *)
(*                                                                         *)
(* Hook H1 exports the instruction stream twice: before allocation (A:     *)
(* every value has a register of its own, "virtual" names) and after (B:   *)
(* r0..r15).  Allocation only renames operands, so the two streams have    *)
(* the same lines and both machines are always at the same line.  They run *)
(* in lockstep against one shared device environment, and before every     *)
(* step the simulation relation is checked where it matters:               *)
(*                                                                         *)
(*    every register the instruction READS holds the same value in A       *)
(*    (under its virtual name) and in B (under its physical name).         *)
(*                                                                         *)
(* If two values that are live at the same time were given one register,   *)
(* the later write destroys the earlier value and the first read of it     *)
(* breaks the relation - at that read, for any input that reaches it,      *)
(* whether or not the wrong value ever changes an effect inside the        *)
(* explored bound (Equiv2 only sees effects).                              *)
(*                                                                         *)
(* Verdicts: READ_VALUE_DIFFERS, CONTROL_DIVERGES (different lines),       *)
(* EFFECT_DIFFERS, FAULT_DIFFERS; INCONCLUSIVE:* are never violations.     *)
(***************************************************************************)
EXTENDS IC10Core, Json

Cases == JsonDeserialize("cases.json")

VARIABLES tid, verdict, a, b, env, n
vars == <<tid, verdict, a, b, env, n>>

J == Cases[tid]
PA == J.pa
PB == J.pb
Dom == {J.dom[k] : k \in 1..Len(J.dom)}
MaxN == J.maxn
MaxLevel == J.maxlevel

Init == /\ tid \in 1..Len(Cases) /\ verdict = ""
        /\ a = NewMachineN(Cases[tid].nrega) /\ b = NewMachine /\ env = <<>> /\ n = 0

Sink(v) == verdict' = v /\ tid' = tid /\ a' = NewMachine /\ b' = NewMachine /\ env' = <<>> /\ n' = 0

\* operand positions whose register is read: all register operands but an output in first position
ReadPos(i) == {k \in 1..Len(i.a) : i.a[k][1] = "r" /\ ~(k = 1 /\ HasF(i, "out") /\ i.out)}
SameLines == a.pc = b.pc
AtEnd == a.pc >= Len(PA)
ReadsAgree == LET ia == PA[a.pc + 1]
                  ib == PB[b.pc + 1] IN
              /\ Len(ia.a) = Len(ib.a)
              /\ \A k \in ReadPos(ia) : ib.a[k][1] = "r" /\ a.reg[ia.a[k][2]] = b.reg[ib.a[k][2]]
Inconclusive(why) == why \in {"SYMBOLIC_BRANCH", "UNRESOLVED_OPERAND", "UNSUPPORTED_INSTRUCTION"}
\* the differing positions of two effects of the same kind all involve a symbolic value
DiffSym(e, f) == e # NoEff /\ f # NoEff /\ e[1] = f[1] /\ \A k \in 2..6 : e[k] = f[k] \/ IsSym(e[k]) \/ IsSym(f[k])
LevelOK == MaxLevel = 0 \/ TLCGet("level") < MaxLevel

Step ==
  /\ verdict = "" /\ a.st = "run" /\ b.st = "run" /\ n < MaxN /\ LevelOK
  /\ IF ~SameLines THEN Sink("CONTROL_DIVERGES")
     ELSE IF ~AtEnd /\ Len(PB) >= Len(PA) /\ ~ReadsAgree THEN Sink("READ_VALUE_DIFFERS")
     ELSE \E sa \in IcSucc(PA, a, env, Dom) : \E sb \in IcSucc(PB, b, sa.env, Dom) :
            IF sa.m.st = "err" \/ sb.m.st = "err" THEN
                 IF sa.m.st = "err" /\ Inconclusive(sa.m.why) THEN Sink("INCONCLUSIVE:A:" \o sa.m.why)
                 ELSE IF sb.m.st = "err" /\ Inconclusive(sb.m.why) THEN Sink("INCONCLUSIVE:B:" \o sb.m.why)
                 ELSE IF sa.m.st = sb.m.st /\ sa.m.why = sb.m.why THEN Sink("reported")      \* both fault alike: the run ends
                 ELSE Sink("FAULT_DIFFERS")
            ELSE IF sa.eff # sb.eff THEN (IF DiffSym(sa.eff, sb.eff) THEN Sink("INCONCLUSIVE:INEXACT") ELSE Sink("EFFECT_DIFFERS"))
            ELSE /\ a' = sa.m /\ b' = sb.m
                 /\ env' = IF sa.eff # NoEff THEN ClearEpoch(sb.env) ELSE sb.env
                 /\ n' = IF sa.eff # NoEff THEN n + 1 ELSE n
                 /\ UNCHANGED <<tid, verdict>>

Report ==
  /\ verdict # "" /\ verdict # "reported"
  /\ PrintT(<<"VERDICT", tid, verdict>>)
  /\ verdict' = "reported"
  /\ UNCHANGED <<tid, a, b, env, n>>

Next == Step \/ Report
Spec == Init /\ [][Next]_vars
=============================================================================
