------------------------------- MODULE Values -------------------------------
(***************************************************************************)
(* The value domain shared by the IC10 machine (IC10Core.tla) and the      *)
(* source dialect machine (PySrc.tla), and the IC10 ALU on it.             *)
(*                                                                         *)
(* TLC has 32-bit integers and no floats.  A value is a tuple whose LENGTH *)
(* is its tag (TLC compares tuples of different length as unequal without  *)
(* looking at the elements, so mixed comparisons never raise):             *)
(*   <<n, d>>            exact rational n/d, d >= 1, gcd(n,d) = 1          *)
(*   <<"nan">> <<"inf">> <<"-inf">>   IEEE specials                        *)
(*   <<"ovf">>           result does not fit TLC's integers (inconclusive) *)
(*   <<"L", text, "">>   a literal that does not fit (wide int / long      *)
(*                       decimal); compared by text only                   *)
(*   <<"T", op, a, b>>   uninterpreted term (transcendental function away  *)
(*                       from an exact point, arithmetic on a literal)     *)
(* "Exact" values are the rationals and the IEEE specials.                 *)
(***************************************************************************)
EXTENDS Integers, Sequences, TLC, Bitwise

MAXI == 2147483647

Z    == <<0, 1>>
One  == <<1, 1>>
NaN  == <<"nan">>
PInf == <<"inf">>
NInf == <<"-inf">>
OVF  == <<"ovf">>
Q(n) == <<n, 1>>
Lit(t) == <<"L", t, "">>
Term(op, a, b) == <<"T", op, a, b>>

IsQ(v)    == Len(v) = 2
IsSpec(v) == Len(v) = 1
IsLit(v)  == Len(v) = 3
IsTerm(v) == Len(v) = 4
IsInt(v)  == IsQ(v) /\ v[2] = 1
\* symbolic: nothing can be computed from it
IsSym(v)  == Len(v) \in {3, 4} \/ v = OVF
IsExact(v) == ~IsSym(v)

AbsI(a) == IF a < 0 THEN -a ELSE a
SgnI(a) == IF a < 0 THEN -1 ELSE IF a > 0 THEN 1 ELSE 0
AddOK(a, b) == IF a >= 0 /\ b >= 0 THEN a <= MAXI - b
               ELSE IF a <= 0 /\ b <= 0 THEN a >= (-MAXI) - b ELSE TRUE
MulOK(a, b) == a = 0 \/ b = 0 \/ AbsI(a) <= MAXI \div AbsI(b)

RECURSIVE GCD(_, _)
GCD(a, b) == IF b = 0 THEN a ELSE GCD(b, a % b)

\* n/d with d > 0, reduced
Norm(n, d) == IF n = 0 THEN Z ELSE LET g == GCD(AbsI(n), d) IN <<n \div g, d \div g>>

\* ---- sign / zero tests on any value --------------------------------------
\* "zero", "pos", "neg", "nan", "sym"
SignOf(v) ==
  IF IsQ(v) THEN (IF v[1] = 0 THEN "zero" ELSE IF v[1] > 0 THEN "pos" ELSE "neg")
  ELSE IF v = PInf THEN "pos" ELSE IF v = NInf THEN "neg"
  ELSE IF v = NaN THEN "nan" ELSE "sym"

\* ---- comparison: "lt" "eq" "gt" "un" (unordered: NaN) "sym" (cannot decide)
CmpQ(x, y) ==
  IF x[2] = 1 /\ y[2] = 1 THEN (IF x[1] < y[1] THEN "lt" ELSE IF x[1] = y[1] THEN "eq" ELSE "gt")
  ELSE IF MulOK(x[1], y[2]) /\ MulOK(y[1], x[2]) THEN
       LET l == x[1] * y[2]  r == y[1] * x[2] IN
       (IF l < r THEN "lt" ELSE IF l = r THEN "eq" ELSE "gt")
  ELSE "sym"

Cmp(x, y) ==
  IF IsQ(x) /\ IsQ(y) THEN CmpQ(x, y)
  ELSE IF x = NaN \/ y = NaN THEN "un"
  ELSE IF IsSym(x) \/ IsSym(y) THEN (IF x = y /\ x # OVF THEN "eq" ELSE "sym")
  ELSE IF x = y THEN "eq"                       \* inf = inf
  ELSE IF x = PInf \/ y = NInf THEN "gt"
  ELSE "lt"

\* ---- rational arithmetic ---------------------------------------------------
QNeg(x) == <<-x[1], x[2]>>
QAdd(x, y) ==
  IF x[2] = 1 /\ y[2] = 1 THEN (IF AddOK(x[1], y[1]) THEN <<x[1] + y[1], 1>> ELSE OVF)
  ELSE IF MulOK(x[1], y[2]) /\ MulOK(y[1], x[2]) /\ MulOK(x[2], y[2]) THEN
       LET l == x[1] * y[2]  r == y[1] * x[2] IN
       (IF AddOK(l, r) THEN Norm(l + r, x[2] * y[2]) ELSE OVF)
  ELSE OVF
QMul(x, y) ==
  IF MulOK(x[1], y[1]) /\ MulOK(x[2], y[2]) THEN Norm(x[1] * y[1], x[2] * y[2]) ELSE OVF
QInv(x) == IF x[1] > 0 THEN <<x[2], x[1]>> ELSE <<-x[2], -x[1]>>     \* x # 0
\* integer part, truncation toward zero / floor / ceil
QTruncI(x) == IF x[1] >= 0 THEN x[1] \div x[2] ELSE -((-x[1]) \div x[2])
QFloorI(x) == x[1] \div x[2]                   \* TLC's \div floors
QCeilI(x)  == -((-x[1]) \div x[2])

SpecSign(v) == IF v = PInf THEN 1 ELSE -1        \* for the infinities

\* generic wrapper: NaN and symbolic propagation for binary operators
Bin2(op, x, y, f(_, _)) ==
  IF x = OVF \/ y = OVF THEN OVF
  ELSE IF IsSym(x) \/ IsSym(y) THEN Term(op, x, y)
  ELSE IF x = NaN \/ y = NaN THEN NaN
  ELSE f(x, y)
Un1(op, x, f(_)) ==
  IF x = OVF THEN OVF
  ELSE IF IsSym(x) THEN Term(op, x, Z)
  ELSE IF x = NaN THEN NaN
  ELSE f(x)

AddE(x, y) == IF IsQ(x) /\ IsQ(y) THEN QAdd(x, y)
              ELSE IF IsQ(x) THEN y ELSE IF IsQ(y) THEN x
              ELSE IF x = y THEN x ELSE NaN                    \* inf + -inf
Add(x, y) == Bin2("add", x, y, AddE)
NegE(x) == IF IsQ(x) THEN QNeg(x) ELSE IF x = PInf THEN NInf ELSE PInf
Neg(x) == Un1("neg", x, NegE)
Sub(x, y) == IF IsSym(y) \/ IsSym(x) THEN Bin2("sub", x, y, AddE) ELSE Add(x, Neg(y))
MulE(x, y) ==
  IF IsQ(x) /\ IsQ(y) THEN QMul(x, y)
  ELSE LET sx == SignOf(x)  sy == SignOf(y) IN
       IF sx = "zero" \/ sy = "zero" THEN NaN
       ELSE IF sx = sy THEN PInf ELSE NInf
Mul(x, y) == Bin2("mul", x, y, MulE)
DivE(x, y) ==
  IF IsQ(x) /\ IsQ(y) THEN
       (IF y[1] = 0 THEN (IF x[1] = 0 THEN NaN ELSE IF x[1] > 0 THEN PInf ELSE NInf)
        ELSE QMul(x, QInv(y)))
  ELSE IF ~IsQ(x) /\ ~IsQ(y) THEN NaN                          \* inf / inf
  ELSE IF IsQ(x) THEN Z                                        \* q / inf
  ELSE (IF (SignOf(x) = "pos") = (SignOf(y) # "neg") THEN PInf ELSE NInf)
Div(x, y) == Bin2("div", x, y, DivE)

\* IC10 mod: m = fmod(a, b) (sign of dividend); if m < 0 then m + b
ModE(x, y) ==
  IF ~IsQ(x) THEN NaN
  ELSE IF ~IsQ(y) THEN (IF x[1] >= 0 THEN x ELSE y)           \* fmod(a, inf) = a; a<0: a + inf
  ELSE IF y[1] = 0 THEN NaN
  ELSE LET q == QMul(x, QInv(y)) IN
       IF q = OVF THEN OVF ELSE
       LET t == QTruncI(q)
           bt == QMul(y, <<t, 1>>) IN
       IF bt = OVF THEN OVF ELSE
       LET m == QAdd(x, QNeg(bt)) IN
       IF m = OVF THEN OVF
       ELSE IF m[1] < 0 THEN QAdd(m, y) ELSE m
Mod(x, y) == Bin2("mod", x, y, ModE)

AbsE(x) == IF IsQ(x) THEN <<AbsI(x[1]), x[2]>> ELSE PInf
Abs(x) == Un1("abs", x, AbsE)
MaxE(x, y) == IF Cmp(x, y) \in {"lt"} THEN y ELSE IF Cmp(x, y) = "sym" THEN OVF ELSE x
MinE(x, y) == IF Cmp(x, y) \in {"gt"} THEN y ELSE IF Cmp(x, y) = "sym" THEN OVF ELSE x
Max(x, y) == Bin2("max", x, y, MaxE)
Min(x, y) == Bin2("min", x, y, MinE)
FloorE(x) == IF IsQ(x) THEN <<QFloorI(x), 1>> ELSE x
CeilE(x)  == IF IsQ(x) THEN <<QCeilI(x), 1>> ELSE x
TruncE(x) == IF IsQ(x) THEN <<QTruncI(x), 1>> ELSE x
\* round half to even (C# Math.Round default)
RoundE(x) ==
  IF ~IsQ(x) THEN x
  ELSE LET f == QFloorI(x)
           r == QAdd(x, <<-f, 1>>) IN        \* fractional part in [0,1)
       IF r = OVF THEN OVF
       ELSE LET c == CmpQ(r, <<1, 2>>) IN
            IF c = "lt" THEN <<f, 1>>
            ELSE IF c = "gt" THEN <<f + 1, 1>>
            ELSE (IF f % 2 = 0 THEN <<f, 1>> ELSE <<f + 1, 1>>)
Floor(x) == Un1("floor", x, FloorE)
Ceil(x)  == Un1("ceil", x, CeilE)
Trunc(x) == Un1("trunc", x, TruncE)
Round(x) == Un1("round", x, RoundE)

\* integer square root by bisection; -1 if not a perfect square
RECURSIVE ISqrtB(_, _, _)
ISqrtB(n, lo, hi) ==
  IF lo > hi THEN -1
  ELSE LET mid == (lo + hi) \div 2 IN
       IF mid * mid = n THEN mid
       ELSE IF mid * mid < n THEN ISqrtB(n, mid + 1, hi) ELSE ISqrtB(n, lo, mid - 1)
ISqrt(n) == IF n < 0 THEN -1 ELSE ISqrtB(n, 0, IF n < 46340 THEN n ELSE 46340)
SqrtE(x) ==
  IF x = PInf THEN PInf ELSE IF x = NInf THEN NaN
  ELSE IF x[1] < 0 THEN NaN
  ELSE LET a == ISqrt(x[1])  b == ISqrt(x[2]) IN
       IF a >= 0 /\ b >= 0 THEN <<a, b>> ELSE Term("sqrt", x, Z)
Sqrt(x) == Un1("sqrt", x, SqrtE)

RECURSIVE PowI(_, _)
PowI(x, k) == IF k = 0 THEN One ELSE LET r == PowI(x, k - 1) IN IF r = OVF THEN OVF ELSE QMul(r, x)
PowE(x, y) ==
  IF IsInt(y) /\ y[1] = 0 THEN One
  ELSE IF IsQ(x) /\ IsInt(y) /\ y[1] > 0 /\ y[1] <= 16 THEN PowI(x, y[1])
  ELSE IF IsQ(x) /\ IsInt(y) /\ y[1] < 0 /\ y[1] >= -16 /\ x[1] # 0 THEN
       LET r == PowI(x, -y[1]) IN IF r = OVF THEN OVF ELSE QInv(r)
  ELSE IF IsQ(x) /\ x = One THEN One
  ELSE Term("pow", x, y)
Pow(x, y) == IF x = OVF \/ y = OVF THEN OVF ELSE IF IsSym(x) \/ IsSym(y) THEN Term("pow", x, y) ELSE PowE(x, y)

\* transcendental functions: exact points only
Fn1(name, x) ==
  IF x = OVF THEN OVF
  ELSE IF IsSym(x) THEN Term(name, x, Z)
  ELSE IF x = NaN THEN NaN
  ELSE IF name \in {"sin", "tan", "asin", "atan"} /\ x = Z THEN Z
  ELSE IF name = "cos" /\ x = Z THEN One
  ELSE IF name = "acos" /\ x = One THEN Z
  ELSE IF name = "exp" /\ x = Z THEN One
  ELSE IF name = "exp" /\ x = NInf THEN Z
  ELSE IF name = "exp" /\ x = PInf THEN PInf
  ELSE IF name = "log" /\ x = One THEN Z
  ELSE IF name = "log" /\ x = Z THEN NInf
  ELSE IF name = "log" /\ SignOf(x) = "neg" THEN NaN
  ELSE IF name = "log" /\ x = PInf THEN PInf
  ELSE Term(name, x, Z)
Atan2(y, x) ==
  IF x = OVF \/ y = OVF THEN OVF
  ELSE IF IsSym(x) \/ IsSym(y) THEN Term("atan2", y, x)
  ELSE IF x = NaN \/ y = NaN THEN NaN
  ELSE IF y = Z /\ SignOf(x) = "pos" THEN Z
  ELSE Term("atan2", y, x)

\* ---- truth, comparisons as 0/1 --------------------------------------------
B2V(b) == IF b THEN One ELSE Z
\* relation names as in the instruction suffixes
CmpHolds(rel, c) ==            \* c = result of Cmp; NaN compares false except "ne"
  CASE rel = "eq" -> c = "eq"
    [] rel = "ne" -> c # "eq"
    [] rel = "lt" -> c = "lt"
    [] rel = "le" -> c \in {"lt", "eq"}
    [] rel = "gt" -> c = "gt"
    [] rel = "ge" -> c \in {"gt", "eq"}
\* TRUE when the relation cannot be decided on these operands
CmpUndecided(x, y) == Cmp(x, y) = "sym"
Rel(rel, x, y) == CmpHolds(rel, Cmp(x, y))

\* ---- two's complement bit operations on the integer parts ------------------
\* IC10 converts the double to a long by truncation.  Defined for exact
\* rationals; the integer part must fit.  Negative numbers via ~x = -x-1.
IntOf(x) == QTruncI(x)
NotI(a) == -a - 1
AndI(a, b) ==
  IF a >= 0 /\ b >= 0 THEN a & b
  ELSE IF a < 0 /\ b >= 0 THEN b - (b & NotI(a))
  ELSE IF a >= 0 /\ b < 0 THEN a - (a & NotI(b))
  ELSE NotI(NotI(a) | NotI(b))
OrI(a, b) ==
  IF a >= 0 /\ b >= 0 THEN a | b
  ELSE IF a < 0 /\ b >= 0 THEN NotI(NotI(a) - (NotI(a) & b))
  ELSE IF a >= 0 /\ b < 0 THEN NotI(NotI(b) - (NotI(b) & a))
  ELSE NotI(NotI(a) & NotI(b))
XorI(a, b) ==
  IF a >= 0 /\ b >= 0 THEN a ^^ b
  ELSE IF a < 0 /\ b >= 0 THEN NotI(NotI(a) ^^ b)
  ELSE IF a >= 0 /\ b < 0 THEN NotI(a ^^ NotI(b))
  ELSE NotI(a) ^^ NotI(b)

BitBin(op, x, y) ==
  IF x = OVF \/ y = OVF THEN OVF
  ELSE IF ~(IsQ(x) /\ IsQ(y)) THEN Term(op, x, y)
  ELSE LET a == IntOf(x)  b == IntOf(y) IN
       IF AbsI(a) >= 1073741824 \/ AbsI(b) >= 1073741824 THEN OVF
       ELSE CASE op = "and" -> Q(AndI(a, b))
              [] op = "or"  -> Q(OrI(a, b))
              [] op = "xor" -> Q(XorI(a, b))
              [] op = "nor" -> Q(NotI(OrI(a, b)))
BitNot(x) ==
  IF x = OVF THEN OVF
  ELSE IF ~IsQ(x) THEN Term("not", x, Z)
  ELSE Q(NotI(IntOf(x)))

RECURSIVE Pow2(_)
Pow2(k) == IF k = 0 THEN 1 ELSE 2 * Pow2(k - 1)
\* sll / sla: a * 2^b; srl: logical on the 53-bit pattern (non-negative a only,
\* a negative a gives a 53-bit pattern that does not fit: symbolic term);
\* sra: arithmetic = floor division
Shift(op, x, y) ==
  IF x = OVF \/ y = OVF THEN OVF
  ELSE IF ~(IsQ(x) /\ IsQ(y)) THEN Term(op, x, y)
  ELSE LET a == IntOf(x)  b == IntOf(y) IN
       IF b < 0 \/ b > 62 THEN Term(op, x, y)
       ELSE IF op \in {"sll", "sla"} THEN
            (IF a = 0 THEN Z
             ELSE IF b <= 30 /\ MulOK(a, Pow2(b)) THEN Q(a * Pow2(b)) ELSE OVF)
       ELSE IF op = "srl" THEN
            (IF a >= 0 THEN (IF b > 30 THEN Z ELSE Q(a \div Pow2(b)))
             ELSE (IF b = 0 THEN Q(a) ELSE Term(op, x, y)))
       ELSE \* sra
            (IF b > 30 THEN (IF a >= 0 THEN Z ELSE Q(-1)) ELSE Q(a \div Pow2(b)))

\* |a - b| <= max(c * max(|a|, |b|), tiny)   (sap); tiny only matters for a = b
Approx(a, b, c) ==
  IF IsQ(a) /\ IsQ(b) /\ IsQ(c) THEN
     LET d == Abs(Sub(a, b))
         m == Mul(c, Max(Abs(a), Abs(b))) IN
     IF d = OVF \/ m = OVF THEN "sym"
     ELSE IF d = Z THEN "yes"
     ELSE IF Cmp(d, m) \in {"lt", "eq"} THEN "yes" ELSE "no"
  ELSE IF a = NaN \/ b = NaN \/ c = NaN THEN "no"
  ELSE "sym"

\* ---- self tests (evaluated once when the module is loaded) -----------------
ASSUME Add(<<1, 2>>, <<1, 3>>) = <<5, 6>>
ASSUME Sub(Q(3), Q(5)) = Q(-2)
ASSUME Mul(<<-3, 4>>, <<2, 3>>) = <<-1, 2>>
ASSUME Div(Q(1), Q(0)) = PInf /\ Div(Q(-1), Q(0)) = NInf /\ Div(Q(0), Q(0)) = NaN
ASSUME Div(Q(7), Q(2)) = <<7, 2>>
ASSUME Mod(Q(7), Q(3)) = Q(1) /\ Mod(Q(-7), Q(3)) = Q(2) /\ Mod(Q(7), Q(-3)) = Q(1) /\ Mod(Q(-7), Q(-3)) = Q(-4)
ASSUME Mod(<<7, 2>>, Q(2)) = <<3, 2>>
ASSUME Round(<<5, 2>>) = Q(2) /\ Round(<<7, 2>>) = Q(4) /\ Round(<<-5, 2>>) = Q(-2) /\ Round(<<8, 3>>) = Q(3)
ASSUME Floor(<<-5, 2>>) = Q(-3) /\ Ceil(<<-5, 2>>) = Q(-2) /\ Trunc(<<-5, 2>>) = Q(-2)
ASSUME Sqrt(<<9, 4>>) = <<3, 2>> /\ Sqrt(Q(-1)) = NaN /\ IsTerm(Sqrt(Q(2)))
ASSUME Pow(Q(2), Q(10)) = Q(1024) /\ Pow(Q(2), Q(-2)) = <<1, 4>> /\ Pow(<<1, 2>>, Q(2)) = <<1, 4>>
ASSUME BitBin("and", Q(12), Q(10)) = Q(8) /\ BitBin("or", Q(12), Q(10)) = Q(14) /\ BitBin("xor", Q(12), Q(10)) = Q(6)
ASSUME BitBin("and", Q(-4), Q(7)) = Q(4) /\ BitBin("or", Q(-4), Q(1)) = Q(-3) /\ BitBin("xor", Q(-1), Q(5)) = Q(-6)
ASSUME BitBin("and", Q(-4), Q(-6)) = Q(-8) /\ BitBin("or", Q(-4), Q(-6)) = Q(-2) /\ BitBin("xor", Q(-4), Q(-6)) = Q(6)
ASSUME BitBin("nor", Q(0), Q(0)) = Q(-1) /\ BitNot(Q(5)) = Q(-6)
ASSUME BitBin("and", Q(3), Q(5)) = Q(1)
ASSUME Shift("sll", Q(3), Q(4)) = Q(48) /\ Shift("srl", Q(48), Q(4)) = Q(3) /\ Shift("sra", Q(-8), Q(1)) = Q(-4)
ASSUME IsTerm(Shift("srl", Q(-8), Q(1)))
ASSUME Rel("lt", Q(1), Q(2)) /\ ~Rel("lt", NaN, Q(2)) /\ Rel("ne", NaN, NaN) /\ Rel("ge", PInf, Q(5))
ASSUME Add(Q(MAXI), Q(1)) = OVF /\ Mul(Q(65536), Q(65536)) = OVF
ASSUME IsTerm(Add(Lit("123456789012"), Q(1)))
ASSUME Cmp(Lit("1.5e9"), Lit("1.5e9")) = "eq" /\ Cmp(Lit("1"), Q(1)) = "sym"
=============================================================================
