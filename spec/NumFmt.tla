------------------------------- MODULE NumFmt -------------------------------
(***************************************************************************)
(* Numeric literals in emitted IC10 (C09): every numeric token is in IC10  *)
(* syntax and reads back as the value the transpiler computed - exactly    *)
(* for integers up to 2^53, to 16 significant digits otherwise.            *)
(*                                                                         *)
(* TLC has no floats: a number is a decimal [neg, dig, pt] meaning         *)
(*     (-1)^neg * 0.d1 d2 d3 ... * 10^pt                                   *)
(* with dig a sequence of decimal digits.  Tokens are character codes.     *)
(*                                                                         *)
(* Part 1 (SpecGen) enumerates a grid of literals around the formatter's   *)
(* branch points (10000 / 10001, 0.1, 2^53, many digits, tiny and huge     *)
(* magnitudes, both signs); every state is exported, rendered to a source  *)
(* literal and compiled by the real compiler.                              *)
(* Part 2 (SpecJudge) takes, per literal, the exact value the transpiler   *)
(* computed (the harness spells the double's exact decimal expansion,      *)
(* cut after 40 digits) and the token found in the emitted text, and       *)
(* decides syntax and read-back.                                           *)
(***************************************************************************)
EXTENDS Integers, Sequences, FiniteSets, TLC, Json, SequencesExt, FiniteSetsExt

\* ---- big decimals --------------------------------------------------------------------
Dec(neg, dig, pt) == [neg |-> neg, dig |-> dig, pt |-> pt]
RECURSIVE StripL(_), StripR(_)
StripL(s) == IF Len(s) > 0 /\ s[1] = 0 THEN StripL(Tail(s)) ELSE s
StripR(s) == IF Len(s) > 0 /\ s[Len(s)] = 0 THEN StripR(SubSeq(s, 1, Len(s) - 1)) ELSE s
LeadZeros(s) == Len(s) - Len(StripL(s))
Norm(D) == LET z == LeadZeros(D.dig)
               d == StripR(StripL(D.dig)) IN
           IF d = <<>> THEN Dec(FALSE, <<>>, 0) ELSE Dec(D.neg, d, D.pt - z)
IsZero(D) == Norm(D).dig = <<>>
SameValue(A, B) == Norm(A) = Norm(B)

\* digit of weight 10^pos
DigitAt(D, pos) == LET i == D.pt - pos IN IF i >= 1 /\ i <= Len(D.dig) THEN D.dig[i] ELSE 0
Hi(D) == D.pt - 1
Lo(D) == D.pt - Len(D.dig)
Aligned(D, hi, lo) == [k \in 1..(hi - lo + 1) |-> DigitAt(D, hi - k + 1)]
LexGE(x, y) == LET diff == {k \in 1..Len(x) : x[k] # y[k]} IN
               IF diff = {} THEN TRUE ELSE x[Min(diff)] > y[Min(diff)]
\* x - y for aligned digit strings with x >= y
SubAligned(x, y) ==
  LET step(k, acc) == LET v == x[k] - y[k] - acc[1] IN
                      IF v < 0 THEN <<1, <<v + 10>> \o acc[2]>> ELSE <<0, <<v>> \o acc[2]>>
  IN FoldRight(step, [k \in 1..Len(x) |-> k], <<0, <<>>>>)[2]
\* | A - B | <= half a unit of the 16th significant digit of A      (A # 0, same sign)
Within16(A0, B0) ==
  LET A == Norm(A0)
      B == Norm(B0)
      T == Dec(FALSE, <<5>>, A.pt - 16)
      hi == Max({Hi(A), Hi(B)})
      lo == Min({Lo(A), Lo(B), Lo(T)})
      a == Aligned(A, hi, lo)
      b == Aligned(B, hi, lo)
      t == Aligned(T, hi, lo)
      d == IF LexGE(a, b) THEN SubAligned(a, b) ELSE SubAligned(b, a) IN
  IF IsZero(A) THEN IsZero(B)
  ELSE IF IsZero(B) THEN FALSE
  ELSE A.neg = B.neg /\ LexGE(t, d)

\* ---- tokens --------------------------------------------------------------------------
Digit(x) == x >= 48 /\ x <= 57
HexVal(x) == IF Digit(x) THEN x - 48 ELSE IF x >= 65 /\ x <= 70 THEN x - 55 ELSE IF x >= 97 /\ x <= 102 THEN x - 87 ELSE -1
DotPos(c) == IF \E i \in 1..Len(c) : c[i] = 46 THEN Min({i \in 1..Len(c) : c[i] = 46}) ELSE 0
IsDecTok(c) ==
  LET s == IF Len(c) > 0 /\ c[1] = 45 THEN 2 ELSE 1
      d == DotPos(c) IN
  /\ Len(c) >= s
  /\ IF d = 0 THEN \A i \in s..Len(c) : Digit(c[i])
     ELSE d > s /\ d < Len(c) /\ \A i \in s..Len(c) : i = d \/ Digit(c[i])
IsHexTok(c) == Len(c) >= 2 /\ c[1] = 36 /\ \A i \in 2..Len(c) : HexVal(c[i]) >= 0
ParseDec(c) ==
  LET neg == c[1] = 45
      s == IF neg THEN 2 ELSE 1
      d == DotPos(c)
      ip == IF d = 0 THEN SubSeq(c, s, Len(c)) ELSE SubSeq(c, s, d - 1)
      fp == IF d = 0 THEN <<>> ELSE SubSeq(c, d + 1, Len(c)) IN
  Dec(neg, [i \in 1..(Len(ip) + Len(fp)) |-> (IF i <= Len(ip) THEN ip[i] ELSE fp[i - Len(ip)]) - 48], Len(ip))
\* decimal digits (most significant first) of digits*m + a
MulAdd(dig, m, a) ==
  LET step(x, acc) == LET v == x * m + acc[1] IN <<v \div 10, <<v % 10>> \o acc[2]>>
      r == FoldRight(step, dig, <<a, <<>>>>)
      c == r[1] IN
  (IF c >= 100 THEN <<c \div 100, (c \div 10) % 10, c % 10>> ELSE IF c >= 10 THEN <<c \div 10, c % 10>> ELSE IF c > 0 THEN <<c>> ELSE <<>>) \o r[2]
ParseHex(c) ==
  LET digs == FoldLeft(LAMBDA acc, x : MulAdd(acc, 16, HexVal(x)), <<>>, SubSeq(c, 2, Len(c))) IN
  Dec(FALSE, digs, Len(digs))
Parse(c) == IF IsHexTok(c) THEN ParseHex(c) ELSE ParseDec(c)

\* 2^53 = 9007199254740992
P53 == Dec(FALSE, <<9, 0, 0, 7, 1, 9, 9, 2, 5, 4, 7, 4, 0, 9, 9, 2>>, 16)
AbsLE(A0, B0) == LET A == Norm(A0)  B == Norm(B0)
                     hi == Max({Hi(A), Hi(B)})  lo == Min({Lo(A), Lo(B)}) IN
                 IsZero(A) \/ (~IsZero(B) /\ LexGE(Aligned(B, hi, lo), Aligned(A, hi, lo)))

\* ---- part 2: judging real tokens -------------------------------------------------------
Cases == JsonDeserialize("cases.json")
\* case: [tok |-> codes of the emitted token ("" when none was found), val |-> [neg, dig, pt] exact value,
\*        alt |-> the double nearest to it (what the chip can hold; beyond 2^53 the transpiler itself may have gone
\*                through a double, e.g. when folding a unary minus), int |-> the value is an integer]
Verdict(c) ==
  IF Len(c.tok) = 0 THEN "NO_NUMERIC_TOKEN"
  ELSE IF ~(IsDecTok(c.tok) \/ IsHexTok(c.tok)) THEN "NOT_IC10_NUMBER_SYNTAX"
  ELSE LET got == Parse(c.tok) IN
       IF c.int /\ AbsLE(c.val, P53) THEN (IF SameValue(got, c.val) THEN "OK" ELSE "INTEGER_NOT_EXACT")
       ELSE IF Within16(c.val, got) \/ Within16(c.alt, got) THEN "OK" ELSE "NOT_WITHIN_16_DIGITS"

VARIABLES tid, verdict
JInit == tid \in 1..Len(Cases) /\ verdict = ""
Judge == verdict = "" /\ verdict' = Verdict(Cases[tid]) /\ UNCHANGED tid
Report == /\ verdict \notin {"", "reported"} /\ PrintT(<<"VERDICT", tid, verdict>>)
          /\ verdict' = "reported" /\ UNCHANGED tid
SpecJudge == JInit /\ [][Judge \/ Report]_<<tid, verdict>>

\* ---- part 1: the literal grid ------------------------------------------------------------
CONSTANTS Mantissas,   \* set of digit sequences
          Points       \* set of integers: position of the decimal point relative to the mantissa's first digit
\* the grids (cfg files cannot spell sets of tuples: Mantissas <- MantissaGrid)
MantissaGrid == {<<1>>, <<5>>, <<1, 5>>, <<9, 9>>, <<1, 0, 0, 0, 1>>, <<1, 2, 3, 4, 5, 6, 7>>,
                 <<9, 0, 0, 7, 1, 9, 9, 2, 5, 4, 7, 4, 0, 9, 9, 3>>,
                 <<1, 2, 3, 4, 5, 6, 7, 8, 9, 0, 1, 2, 3, 4, 5, 6, 7, 8, 9>>,
                 <<3, 3, 3, 3, 3, 3, 3, 3, 3, 3, 3, 3, 3, 3, 3, 3, 3>>}
PointsQuick == {-8, -4, -1, 0, 1, 4, 5, 6, 10, 16, 17, 22}
PointsThorough == {-30, -8, -7, -4, -1, 0, 1, 2, 4, 5, 6, 9, 10, 15, 16, 17, 18, 22, 40}
Nothing == {}
GInit == /\ tid \in {0, 1}                                   \* 0: positive, 1: negative
         /\ \E m \in Mantissas, p \in Points : verdict = ToJson(Dec(tid = 1, m, p))
GNext == UNCHANGED <<tid, verdict>>
SpecGen == GInit /\ [][GNext]_<<tid, verdict>>
ExportGrid == PrintT(<<"LIT", verdict>>)

ASSUME SameValue(ParseDec(<<45, 48, 49, 46, 53, 48>>), Dec(TRUE, <<1, 5>>, 1))                \* -01.50 = -1.5
ASSUME SameValue(ParseHex(<<36, 70, 70>>), Dec(FALSE, <<2, 5, 5>>, 3))                       \* $FF = 255
ASSUME SameValue(ParseHex(<<36, 50, 48, 56, 65, 53, 57, 50, 70>>), Dec(FALSE, <<5, 4, 5, 9, 3, 7, 7, 1, 1>>, 9))  \* $208A592F
ASSUME Within16(Dec(FALSE, <<3,3,3,3,3,3,3,3,3,3,3,3,3,3,3,3,3,3,3,3>>, 0), Dec(FALSE, <<3,3,3,3,3,3,3,3,3,3,3,3,3,3,3,3>>, 0))
ASSUME ~Within16(Dec(FALSE, <<3,3,3,3,3,3,3,3,3,3,3,3,3,3,3,3,3,3,3,3>>, 0), Dec(FALSE, <<3,3,3,3,3,3,3,3,3,3,3,3,3,3,3>>, 0))
ASSUME ~Within16(Dec(FALSE, <<1>>, 1), Dec(TRUE, <<1>>, 1)) /\ Within16(Dec(FALSE, <<1>>, 1), Dec(FALSE, <<1, 0>>, 1))
ASSUME AbsLE(Dec(TRUE, <<9, 0, 0, 7, 1, 9, 9, 2, 5, 4, 7, 4, 0, 9, 9, 2>>, 16), P53) /\ ~AbsLE(Dec(FALSE, <<9, 0, 0, 7, 1, 9, 9, 2, 5, 4, 7, 4, 0, 9, 9, 3>>, 16), P53)
=============================================================================
