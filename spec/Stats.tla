-------------------------------- MODULE Stats --------------------------------
(***************************************************************************)
(* What the statistics of a successful result mean (C17), evaluated by TLC *)
(* on every result the real compiler returned.                             *)
(*                                                                         *)
(* A case is  [code  |-> the emitted text as character codes,              *)
(*             nl    |-> reported num_lines,                               *)
(*             nb    |-> reported num_bytes,                               *)
(*             nr    |-> reported num_registers,                           *)
(*             regs  |-> numbers k of the tokens rk that occur in the text *)
(*                       outside comments (from the loader's tokeniser),   *)
(*             used  |-> the registers the allocator handed out (hook H1;  *)
(*                       <<-1>> when the hook saw no allocation)]          *)
(*                                                                         *)
(* Lines: maximal newline-free segments; an empty text has no line and a   *)
(* final newline does not open another line.  Size: every line end counts  *)
(* two bytes (CR LF), the way the game stores the program.                 *)
(***************************************************************************)
EXTENDS Integers, Sequences, FiniteSets, TLC, Json, SequencesExt

Cases == JsonDeserialize("cases.json")
LF == 10

Newlines(t) == Len(SelectSeq(t, LAMBDA c : c = LF))
NumLines(t) == IF Len(t) = 0 THEN 0 ELSE IF t[Len(t)] = LF THEN Newlines(t) ELSE Newlines(t) + 1
NumBytes(t) == Len(t) + Newlines(t)
SeqSet(q) == {q[i] : i \in 1..Len(q)}

Verdict(c) ==
  IF c.nl # NumLines(c.code) THEN "NUM_LINES_WRONG"
  ELSE IF c.nb # NumBytes(c.code) THEN "NUM_BYTES_WRONG"
  ELSE IF c.nr < 0 \/ c.nr > 16 THEN "NUM_REGISTERS_RANGE"
  ELSE IF \E k \in SeqSet(c.regs) : k < 0 \/ k > 15 THEN "REGISTER_OUT_OF_RANGE"
  ELSE IF c.used # <<-1>> /\ c.nr # Cardinality(SeqSet(c.used)) THEN "NUM_REGISTERS_NOT_THE_ALLOCATED_COUNT"
  ELSE IF c.used # <<-1>> /\ ~(SeqSet(c.regs) \subseteq SeqSet(c.used)) THEN "ALLOCATED_REGISTER_MISSING_FROM_COUNT"
  ELSE IF c.nr < Cardinality(SeqSet(c.regs)) THEN "FEWER_REGISTERS_REPORTED_THAN_EMITTED"
  ELSE "OK"

VARIABLES tid, verdict
Init == tid \in 1..Len(Cases) /\ verdict = ""
Judge == verdict = "" /\ verdict' = Verdict(Cases[tid]) /\ UNCHANGED tid
Report == /\ verdict \notin {"", "reported"} /\ PrintT(<<"VERDICT", tid, verdict>>)
          /\ verdict' = "reported" /\ UNCHANGED tid
Spec == Init /\ [][Judge \/ Report]_<<tid, verdict>>

ASSUME NumLines(<<>>) = 0 /\ NumBytes(<<>>) = 0
ASSUME NumLines(<<97>>) = 1 /\ NumBytes(<<97>>) = 1
ASSUME NumLines(<<97, 10, 98>>) = 2 /\ NumBytes(<<97, 10, 98>>) = 4
ASSUME NumLines(<<97, 10>>) = 1 /\ NumBytes(<<97, 10>>) = 3
=============================================================================
