------------------------------ MODULE ProgGen ------------------------------
(***************************************************************************)
(* Programs as behaviours: a grammar of the source dialect written as a    *)
(* state machine.  A program is a sequence of lines [ind, kind, ...]       *)
(* (Python's block structure is indentation); every action appends a line  *)
(* that is legal at the current position.  TLC enumerates the behaviours   *)
(* (exhaustively for small bounds, `-simulate` for the large ones); every  *)
(* finished program is exported, rendered to source text and handed to the *)
(* real compiler and, through Python's own `ast`, to the source machine    *)
(* PySrc.tla (C01, C02, C04).                                              *)
(*                                                                         *)
(* Shape of every program:                                                 *)
(*     [def fa(xa): ...] [def fb(xa, xb): ...]          (phase "fn")       *)
(*     while True:                                                         *)
(*         va = d0.Setting ; vb = d1.Setting ; vc = 0   (fixed prelude)    *)
(*         <generated statements>                       (phase "main")     *)
(*         d2.Setting = va ; d3.Setting = vb ; d4.Setting = vc ; yield_()  *)
(* so every variable is bound before use and observable afterwards.        *)
(*                                                                         *)
(* The grammar stays away from the shapes the listed source-level findings *)
(* are keyed on (bare copies `x = y`, `continue` directly in a `for`, loop *)
(* variables used outside their loop, non-constant steps): those have      *)
(* their own witnesses, and a generated program that hit them would only   *)
(* be reported as the known finding.                                       *)
(***************************************************************************)
EXTENDS Integers, Sequences, FiniteSets, TLC, Json

CONSTANTS MaxLines,      \* generated lines in the main part
          MinLines,      \* a program is not finished before it has this many (unless there is no room left)
          MaxDepth,      \* nesting depth of blocks
          MaxFnLines,    \* generated lines per function body
          NFuncs,        \* 0..2 functions
          Vars, Consts, Devs, Ops, Cmps,     \* the alphabet (small sets make the exhaustive configuration finite and small)
          Pure,          \* TRUE: function bodies are pure (no device access) and are called with constants only: the program
                         \* is rendered with `@constexpr` in front of every function (C12: the call is replaced by its value)
          Sample         \* TRUE: every choice of an operand / expression is one random element (TLC -simulate draws programs
                         \* without enumerating the thousands of successors of each step); FALSE: all of them (exhaustive)

C(v) == [k |-> "c", v |-> v, n |-> "", d |-> ""]
V(n) == [k |-> "v", v |-> 0, n |-> n, d |-> ""]
R(d) == [k |-> "r", v |-> 0, n |-> "", d |-> d]
Leaves(names) == {C(v) : v \in Consts} \cup {V(n) : n \in names} \cup {R(d) : d \in Devs}
Bin(op, l, r) == [k |-> "b", op |-> op, l |-> l, r |-> r]
NoExpr == [k |-> "none"]
PureLeaves(names) == {C(v) : v \in Consts} \cup {V(n) : n \in names}
\* expressions of depth <= 1 over a set of leaves
ExprsL(L) == {[k |-> "l", e |-> x] : x \in L} \cup {Bin(op, l, r) : op \in Ops \cup Cmps, l \in L, r \in L}
Exprs(names) == ExprsL(Leaves(names))
\* the same sets, or one random member of each
Pick(S) == IF Sample THEN {RandomElement(S)} ELSE S
ExprsLP(L) == IF ~Sample THEN ExprsL(L)
               ELSE {IF RandomElement(1..3) = 1 THEN [k |-> "l", e |-> RandomElement(L)]
                     ELSE Bin(RandomElement(Ops \cup Cmps), RandomElement(L), RandomElement(L))}
ExprsP(names) == ExprsLP(Leaves(names))
\* inside function bodies
ExprsF(names) == ExprsLP(IF Pure THEN PureLeaves(names) ELSE Leaves(names))
Conds(names) == {Bin(op, l, r) : op \in Cmps, l \in {V(n) : n \in names}, r \in Leaves(names) \ {R(d) : d \in Devs}}

VARIABLES phase,     \* "fn" | "main" | "done"
          lines,     \* the main part
          open,      \* blocks open at the current position: [kind |-> "if" | "else" | "for" | "while", var |-> loop variable]
          must,      \* the previous line opened a block: the next line belongs to it
          lastif,    \* the block closed last at this depth was an `if` and nothing followed: `else` is legal
          fns,       \* finished function bodies: sequence of [params, lines, ret]
          cur,       \* the function body being written
          nloop,     \* loops opened so far (names of loop counters)
          stop       \* the last line was a break / continue: nothing more can follow in this block
vars == <<phase, lines, open, must, lastif, fns, cur, nloop, stop>>

Depth == Len(open)
IsLoopB(b) == b.kind \in {"for", "while"}
InLoop == \E i \in 1..Len(open) : IsLoopB(open[i])
InnermostLoop == IF InLoop THEN open[CHOOSE i \in 1..Len(open) : IsLoopB(open[i]) /\ \A j \in (i + 1)..Len(open) : ~IsLoopB(open[j])].kind ELSE ""
B(kind, var) == [kind |-> kind, var |-> var, bnd |-> ""]
Line(ind, kind, a, b, c) == [ind |-> ind, kind |-> kind, a |-> a, b |-> b, c |-> c]
FnNames == <<"fa", "fb">>
Params(i) == IF i = 1 THEN <<"xa">> ELSE <<"xa", "xb">>
LoopVar(k) == IF k = 0 THEN "ia" ELSE IF k = 1 THEN "ib" ELSE "ic"

Init == /\ phase = (IF NFuncs > 0 THEN "fn" ELSE "main") /\ lines = <<>> /\ open = <<>> /\ must = FALSE /\ lastif = FALSE
        /\ fns = <<>> /\ cur = <<>> /\ nloop = 0 /\ stop = FALSE

\* ---- function bodies: straight-line code over the parameters and one local, ended by a return -------------
FnVars(i) == {Params(i)[q] : q \in 1..Len(Params(i))}
FnAdd(e) == /\ phase = "fn" /\ Len(cur) < MaxFnLines /\ (IF e.k = "l" THEN e.e.k # "v" ELSE TRUE)
            /\ cur' = Append(cur, Line(1, "assign", "tl", e, ""))
            /\ UNCHANGED <<phase, lines, open, must, lastif, fns, nloop, stop>>
\* a parameter is a local variable: the body may change it (the caller's argument keeps its value)
FnAug(p, op, x) == /\ phase = "fn" /\ Len(cur) < MaxFnLines
                   /\ cur' = Append(cur, Line(1, "aug", p, op, x))
                   /\ UNCHANGED <<phase, lines, open, must, lastif, fns, nloop, stop>>
FnWrite(e) == /\ phase = "fn" /\ ~Pure /\ Len(cur) < MaxFnLines
              /\ cur' = Append(cur, Line(1, "write", "d5", e, ""))
              /\ UNCHANGED <<phase, lines, open, must, lastif, fns, nloop, stop>>
FnEarly(c, e) == /\ phase = "fn" /\ Len(cur) + 1 < MaxFnLines
                 /\ cur' = cur \o <<Line(1, "if", c, "", ""), Line(2, "return", e, "", "")>>
                 /\ UNCHANGED <<phase, lines, open, must, lastif, fns, nloop, stop>>
FnReturn(e) == /\ phase = "fn"
               /\ fns' = Append(fns, [params |-> Params(Len(fns) + 1), lines |-> Append(cur, Line(1, "return", e, "", ""))])
               /\ cur' = <<>> /\ phase' = (IF Len(fns) + 1 = NFuncs THEN "main" ELSE "fn")
               /\ UNCHANGED <<lines, open, must, lastif, nloop, stop>>
FnStep == LET i == Len(fns) + 1
              names == FnVars(i) \cup (IF \E q \in 1..Len(cur) : cur[q].kind = "assign" THEN {"tl"} ELSE {}) IN
          \/ \E e \in ExprsF(names) : FnAdd(e) \/ FnWrite(e) \/ FnReturn(e)
          \/ \E c \in Pick(Conds(FnVars(i))), e \in ExprsF(FnVars(i)) : FnEarly(c, e)
          \/ \E p \in Pick(FnVars(i)), op \in Pick(Ops), x \in Pick(IF Pure THEN PureLeaves(FnVars(i)) ELSE Leaves(FnVars(i))) : FnAug(p, op, x)

\* ---- the main part ---------------------------------------------------------------------------------------
Room == Len(lines) < MaxLines /\ ~stop
Put(l, op2, must2, lastif2) == /\ lines' = Append(lines, l) /\ open' = op2 /\ must' = must2 /\ lastif' = lastif2
                               /\ stop' = (l.kind \in {"break", "continue"}) /\ UNCHANGED <<phase, fns, cur>>
\* a variable that bounds an open `for` loop is not assigned in its body (the bound is re-read: listed finding)
Targets == Vars \ {open[i].bnd : i \in 1..Len(open)}
\* loop variables are readable only inside their own loop
Names == Vars \cup {open[i].var : i \in {j \in 1..Len(open) : IsLoopB(open[j])}}
Assign(v, e) == phase = "main" /\ Room /\ Put(Line(Depth, "assign", v, e, ""), open, FALSE, FALSE) /\ UNCHANGED nloop
Aug(v, op, x) == phase = "main" /\ Room /\ Put(Line(Depth, "aug", v, op, x), open, FALSE, FALSE) /\ UNCHANGED nloop
Write(e) == phase = "main" /\ Room /\ Put(Line(Depth, "write", "d5", e, ""), open, FALSE, FALSE) /\ UNCHANGED nloop
CallFn(v, i, args) == phase = "main" /\ Room /\ i <= Len(fns)
                      /\ Put(Line(Depth, "call", v, FnNames[i], args), open, FALSE, FALSE) /\ UNCHANGED nloop
OpenIf(c) == phase = "main" /\ Room /\ Depth < MaxDepth /\ Len(lines) + 1 < MaxLines
             /\ Put(Line(Depth, "if", c, "", ""), Append(open, B("if", "")), TRUE, FALSE) /\ UNCHANGED nloop
OpenElse == phase = "main" /\ Room /\ lastif /\ ~must /\ Len(lines) + 1 < MaxLines
            /\ Put(Line(Depth, "else", "", "", ""), Append(open, B("else", "")), TRUE, FALSE) /\ UNCHANGED nloop
OpenFor(x) == phase = "main" /\ Room /\ Depth < MaxDepth /\ nloop < 3 /\ Len(lines) + 1 < MaxLines
              /\ Put(Line(Depth, "for", LoopVar(nloop), x, ""), Append(open, [B("for", LoopVar(nloop)) EXCEPT !.bnd = x.n]), TRUE, FALSE) /\ nloop' = nloop + 1
\* a while loop with its own counter: `wK = 0` / `while wK < bound:` / `wK = wK + 1` as first body line
OpenWhile(bound) == phase = "main" /\ ~stop /\ Depth < MaxDepth /\ nloop < 3 /\ Len(lines) + 3 < MaxLines
                    /\ lines' = lines \o <<Line(Depth, "winit", LoopVar(nloop), "", ""), Line(Depth, "while", LoopVar(nloop), bound, ""),
                                          Line(Depth + 1, "wstep", LoopVar(nloop), "", "")>>
                    /\ open' = Append(open, B("while", LoopVar(nloop))) /\ must' = FALSE /\ lastif' = FALSE /\ nloop' = nloop + 1
                    /\ UNCHANGED <<phase, fns, cur, stop>>
\* break / continue end a conditional block inside a loop (anywhere in the block, also after other statements)
Break == phase = "main" /\ Room /\ InLoop /\ Depth >= 2 /\ open[Depth].kind \in {"if", "else"}
         /\ Put(Line(Depth, "break", "", "", ""), open, FALSE, FALSE) /\ UNCHANGED nloop
Continue == phase = "main" /\ Room /\ InnermostLoop = "while" /\ Depth >= 2 /\ open[Depth].kind \in {"if", "else"}
            /\ Put(Line(Depth, "continue", "", "", ""), open, FALSE, FALSE) /\ UNCHANGED nloop
Close == /\ phase = "main" /\ Depth > 0 /\ ~must
         /\ open' = SubSeq(open, 1, Depth - 1) /\ lastif' = (open[Depth].kind = "if") /\ must' = FALSE /\ stop' = FALSE
         /\ UNCHANGED <<phase, lines, fns, cur, nloop>>
Finish == /\ phase = "main" /\ ~must /\ Len(lines) > 0 /\ (Len(lines) >= MinLines \/ Len(lines) + 1 >= MaxLines)
          /\ phase' = "done" /\ open' = <<>> /\ stop' = FALSE /\ UNCHANGED <<lines, must, lastif, fns, cur, nloop>>

ArgLeaves == IF Pure THEN {C(v) : v \in Consts} ELSE Leaves(Names)
MainStep ==
  \/ Targets # {} /\ \E v \in Pick(Targets), e \in ExprsP(Names) : (IF e.k = "l" THEN e.e.k # "v" ELSE TRUE) /\ Assign(v, e)   \* no bare copies x = y
  \/ Targets # {} /\ \E v \in Pick(Targets), op \in Pick(Ops), x \in Pick(Leaves(Names)) : Aug(v, op, x)
  \/ \E e \in ExprsP(Names) : Write(e)
  \/ Targets # {} /\ \E v \in Pick(Targets), i \in 1..2 : \E a1 \in Pick(ArgLeaves), a2 \in Pick(ArgLeaves) : CallFn(v, i, IF i = 1 THEN <<a1>> ELSE <<a1, a2>>)
  \/ \E c \in Pick(Conds(Names)) : OpenIf(c)
  \/ OpenElse
  \/ \E x \in Pick({C(v) : v \in Consts} \cup {V(n) : n \in Vars}) : OpenFor(x)
  \/ \E b \in Pick(1..3) : OpenWhile(b)
  \/ Break \/ Continue \/ Close \/ Finish

Next == (phase = "fn" /\ FnStep) \/ (phase = "main" /\ MainStep)
Spec == Init /\ [][Next]_vars

\* every finished program is exported
Export == phase = "done" => PrintT(<<"PROG", ToJson([fns |-> fns, lines |-> lines])>>)
\* grammar sanity: indentation never jumps by more than one level and a block is never empty
WellNested == \A i \in 2..Len(lines) : lines[i].ind <= lines[i - 1].ind + 1
=============================================================================
