-------------------------------- MODULE PySrc --------------------------------
(***************************************************************************)
(* The source dialect as an abstract machine (C01, C12, C13): Python       *)
(* control flow and scoping, IC10 arithmetic.                              *)
(*                                                                         *)
(* A program is a node table produced by lib/pysrc.py from Python's own    *)
(* `ast` (no compiler pass is involved):                                   *)
(*   AST.nodes  sequence of node records (fields: kind, op, sc, name, ch,  *)
(*              body, orelse, val, vals)                                   *)
(*   AST.funcs  function name -> [params, body]                            *)
(*   AST.main   id of the block node holding the module-level statements   *)
(*                                                                         *)
(* Machine record:                                                         *)
(*   k     control stack of frames [n, i, vals, ph]; the top frame is the  *)
(*         node being worked on, i the next child / statement, vals the    *)
(*         child values collected so far, ph a phase (loops, calls)        *)
(*   g     module globals (name -> value; names are module qualified)      *)
(*   locs  stack of local environments, one per active call                *)
(*   mem   the chip's own memory as the user sees it (stack[..])           *)
(*   st    "run" | "halt" | "err"      why   reason for "err"              *)
(*                                                                         *)
(* Semantics (each line is a decision a reviewer can disagree with):       *)
(*  - expressions are eager: children left to right, then the node is      *)
(*    applied; `and` / `or` are the IC10 instructions of that name (bitwise*)
(*    on the integer parts, both operands evaluated), `not x` is x == 0,   *)
(*    `a if c else b` is select (both arms evaluated)                      *)
(*  - every operator is the IC10 ALU operation of Values.tla               *)
(*  - statements, scoping, calls, return, break, continue: Python          *)
(*  - for v in range(a, b, c): a, b, c evaluated once; a hidden counter    *)
(*    is assigned to v at the start of every iteration; the sign of c      *)
(*    decides the direction; v keeps its last value after the loop         *)
(*  - device reads go through the shared lazily chosen environment         *)
(*    (IC10Core!EnvRead) with the same keys as the IC10 machine, writes,   *)
(*    yield, sleep are effects with the same shape as IC10Core's           *)
(***************************************************************************)
EXTENDS IC10Core

Unb == <<"unb">>
Frame(n) == [n |-> n, i |-> 1, vals |-> <<>>, ph |-> 0]
\* environments always hold the dummy name "__none__", so their domain is a set of strings
NoVars == [x \in {"__none__"} |-> Unb]
NewSrc(AST) == [k |-> <<Frame(AST.main)>>, g |-> NoVars, locs |-> <<>>, mem |-> <<>>, st |-> "run", why |-> ""]

SErr(S, why) == [S EXCEPT !.st = "err", !.why = why]
Top(S) == S.k[Len(S.k)]
SetTop(S, f) == [S EXCEPT !.k[Len(S.k)] = f]
\* an expression node is done: hand its value to the parent frame
PopV(S, v) ==
  LET n == Len(S.k) IN
  IF n = 1 THEN [S EXCEPT !.k = <<>>]
  ELSE [S EXCEPT !.k = [j \in 1..(n - 1) |-> IF j = n - 1 THEN [S.k[j] EXCEPT !.vals = Append(@, v)] ELSE S.k[j]]]
\* a statement is done
PopS(S) == [S EXCEPT !.k = SubSeq(S.k, 1, Len(S.k) - 1)]
Push(S, c) == [S EXCEPT !.k = Append(S.k, Frame(c))]
\* evaluate the next child of the top frame
PushChild(S, c) == Push(SetTop(S, [Top(S) EXCEPT !.i = @ + 1]), c)

Lookup(S, sc, name) ==
  IF sc = "l" THEN (IF Len(S.locs) > 0 /\ name \in DOMAIN S.locs[Len(S.locs)] THEN S.locs[Len(S.locs)][name] ELSE Unb)
  ELSE (IF name \in DOMAIN S.g THEN S.g[name] ELSE Unb)
SetVar(S, sc, name, v) ==
  IF sc = "l" THEN [S EXCEPT !.locs[Len(S.locs)] = (name :> v) @@ @]
  ELSE [S EXCEPT !.g = (name :> v) @@ @]

Pad(vals, j) == IF j <= Len(vals) THEN vals[j] ELSE Z
IsLoop(kind) == kind \in {"while", "forrange", "forlist"}
\* index of the innermost frame whose node satisfies P (0 if none)
InnerMost(A, S, P(_)) ==
  LET js == {j \in 1..Len(S.k) : P(A.nodes[S.k[j].n].kind)} IN
  IF js = {} THEN 0 ELSE CHOOSE j \in js : \A q \in js : q <= j

SR(S2, env, eff) == [m |-> S2, env |-> env, eff |-> eff]

\* truth of a value used as a condition: "yes" "no" "sym"
Truth(v) == LET s == SignOf(v) IN IF s = "sym" THEN "sym" ELSE IF s = "zero" THEN "no" ELSE "yes"

\* finish the innermost call with value v
Return(A, S, v) ==
  LET j == InnerMost(A, S, LAMBDA kd : kd = "call") IN
  IF j = 0 THEN [S EXCEPT !.k = <<>>]                       \* return at module level: the script ends
  ELSE PopV([S EXCEPT !.k = SubSeq(S.k, 1, j), !.locs = SubSeq(S.locs, 1, Len(S.locs) - 1)], v)

\* the body of a loop frame is finished (fell through, or `continue`): prepare the next round
NextRound(A, f) ==
  LET N == A.nodes[f.n] IN
  IF N.kind = "while" THEN [f EXCEPT !.ph = 0, !.i = 1, !.vals = <<>>]
  ELSE IF N.kind = "forrange" THEN [f EXCEPT !.ph = 2, !.i = 1, !.vals = <<Add(f.vals[1], f.vals[3]), f.vals[2], f.vals[3]>>]
  ELSE [f EXCEPT !.ph = 2, !.i = 1, !.vals = <<Add(f.vals[1], One)>>]

SrcSucc(A, S, env, Dom) ==
  IF S.st # "run" THEN {}
  ELSE IF Len(S.k) = 0 THEN {SR([S EXCEPT !.st = "halt"], env, NoEff)}
  ELSE
  LET f == Top(S)
      N == A.nodes[f.n]
      kind == N.kind
      nch == Len(N.ch)
      vals == f.vals
  IN
  \* ---- nodes that evaluate all children first -------------------------------------------
  IF kind \in {"bin", "un", "cmp", "select", "read", "mem", "listidx", "assign", "aug", "write", "memwrite", "effect0", "expr", "return"}
     /\ f.i <= nch THEN {SR(PushChild(S, N.ch[f.i]), env, NoEff)}
  ELSE IF kind = "const" THEN {SR(PopV(S, N.val), env, NoEff)}
  ELSE IF kind = "name" THEN
       LET v == Lookup(S, N.sc, N.name) IN
       IF v = Unb THEN {SR(SErr(S, "UNBOUND_NAME"), env, NoEff)} ELSE {SR(PopV(S, v), env, NoEff)}
  ELSE IF kind = "bin" THEN {SR(PopV(S, Alu2(N.op, vals[1], vals[2])), env, NoEff)}
  ELSE IF kind = "un" THEN {SR(PopV(S, Alu1(N.op, vals[1])), env, NoEff)}
  ELSE IF kind = "cmp" THEN
       LET r == CondRes(N.op, vals[1], vals[2], Z) IN
       {SR(PopV(S, IF r = "sym" THEN Term("s" \o N.op, vals[1], vals[2]) ELSE B2V(r = "yes")), env, NoEff)}
  ELSE IF kind = "select" THEN
       LET t == Truth(vals[1]) IN
       {SR(PopV(S, IF t = "sym" THEN Term("select", vals[1], Term("pair", vals[2], vals[3])) ELSE IF t = "yes" THEN vals[2] ELSE vals[3]), env, NoEff)}
  ELSE IF kind = "read" THEN
       LET key == Key(N.op, Pad(vals, 1), Pad(vals, 2), Pad(vals, 3), Pad(vals, 4), Pad(vals, 5))
           dom == IF N.op = "dse" THEN BoolDom ELSE Dom IN
       {SR(PopV(S, p[1]), p[2], NoEff) : p \in EnvRead(env, key, dom)}
  ELSE IF kind = "mem" THEN
       LET ad == AddrOf(vals[1]) IN
       IF ad < 0 THEN {SR(SErr(S, "STACK_RANGE"), env, NoEff)}
       ELSE {SR(PopV(S, p[1]), p[2], NoEff) : p \in MemRead(S, env, ad, Dom)}
  ELSE IF kind = "listidx" THEN
       LET ix == vals[1] IN
       IF IsInt(ix) /\ ix[1] >= 0 /\ ix[1] < Len(N.vals) THEN {SR(PopV(S, N.vals[ix[1] + 1]), env, NoEff)}
       ELSE {SR(SErr(S, "LIST_INDEX_OUTSIDE"), env, NoEff)}
  \* ---- simple statements -----------------------------------------------------------------
  ELSE IF kind = "assign" THEN {SR(PopS(SetVar(S, N.sc, N.name, vals[1])), env, NoEff)}
  ELSE IF kind = "aug" THEN
       LET sc == N.sc
           op == N.op
           old == Lookup(S, sc, N.name) IN
       IF old = Unb THEN {SR(SErr(S, "UNBOUND_NAME"), env, NoEff)}
       ELSE {SR(PopS(SetVar(S, sc, N.name, Alu2(op, old, vals[1]))), env, NoEff)}
  ELSE IF kind = "write" THEN
       LET n == Len(vals)
           P(j) == IF j < n THEN vals[j] ELSE Z IN
       {SR(PopS(S), env, IF N.op = "clr" THEN Eff("clr", vals[1], Z, Z, Z, Z) ELSE Eff(N.op, vals[1], P(2), P(3), P(4), vals[n]))}
  ELSE IF kind = "memwrite" THEN
       LET ad == AddrOf(vals[1]) IN
       IF ad < 0 THEN {SR(SErr(S, "STACK_RANGE"), env, NoEff)}
       ELSE {SR(PopS(MemWrite(S, ad, vals[2])), env, NoEff)}
  ELSE IF kind = "effect0" THEN
       IF N.op = "hcf" THEN {SR([S EXCEPT !.st = "halt", !.k = <<>>], env, Eff("hcf", Z, Z, Z, Z, Z))}
       ELSE {SR(PopS(S), env, Eff(N.op, Z, Z, Z, Z, IF N.op = "sleep" THEN vals[1] ELSE Z))}
  ELSE IF kind = "expr" \/ kind = "pass" THEN {SR(PopS(S), env, NoEff)}
  ELSE IF kind = "return" THEN {SR(Return(A, S, IF nch = 0 THEN Z ELSE vals[1]), env, NoEff)}
  \* ---- blocks and control flow ---------------------------------------------------------------
  ELSE IF kind = "block" THEN
       IF f.i <= Len(N.body) THEN {SR(PushChild(S, N.body[f.i]), env, NoEff)} ELSE {SR(PopS(S), env, NoEff)}
  ELSE IF kind = "if" THEN
       IF f.ph = 0 THEN
            (IF f.i = 1 THEN {SR(PushChild(S, N.ch[1]), env, NoEff)}
             ELSE LET t == Truth(vals[1]) IN
                  IF t = "sym" THEN {SR(SErr(S, "SYMBOLIC_BRANCH"), env, NoEff)}
                  ELSE {SR(SetTop(S, [f EXCEPT !.ph = (IF t = "yes" THEN 1 ELSE 2), !.i = 1, !.vals = <<>>]), env, NoEff)})
       ELSE LET L == IF f.ph = 1 THEN N.body ELSE N.orelse IN
            IF f.i <= Len(L) THEN {SR(PushChild(S, L[f.i]), env, NoEff)} ELSE {SR(PopS(S), env, NoEff)}
  ELSE IF kind = "while" THEN
       IF f.ph = 0 THEN
            (IF f.i = 1 THEN {SR(PushChild(S, N.ch[1]), env, NoEff)}
             ELSE LET t == Truth(vals[1]) IN
                  IF t = "sym" THEN {SR(SErr(S, "SYMBOLIC_BRANCH"), env, NoEff)}
                  ELSE IF t = "no" THEN {SR(PopS(S), env, NoEff)}
                  ELSE {SR(SetTop(S, [f EXCEPT !.ph = 1, !.i = 1, !.vals = <<>>]), env, NoEff)})
       ELSE IF f.i <= Len(N.body) THEN {SR(PushChild(S, N.body[f.i]), env, NoEff)}
       ELSE {SR(SetTop(S, NextRound(A, f)), env, NoEff)}
  ELSE IF kind = "forrange" THEN
       IF f.ph = 0 THEN
            (IF f.i <= 3 THEN {SR(PushChild(S, N.ch[f.i]), env, NoEff)}
             ELSE {SR(SetTop(S, [f EXCEPT !.ph = 2]), env, NoEff)})
       ELSE IF f.ph = 2 THEN
            LET sg == SignOf(vals[3])
                c == Cmp(vals[1], vals[2]) IN
            IF sg \in {"sym", "nan"} \/ c = "sym" THEN {SR(SErr(S, "SYMBOLIC_BRANCH"), env, NoEff)}
            ELSE IF sg = "zero" THEN {SR(SErr(S, "RANGE_STEP_ZERO"), env, NoEff)}
            ELSE IF (sg = "pos" /\ c = "lt") \/ (sg = "neg" /\ c = "gt") THEN
                 {SR(SetTop(SetVar(S, N.sc, N.name, vals[1]), [f EXCEPT !.ph = 1, !.i = 1]), env, NoEff)}
            ELSE {SR(PopS(S), env, NoEff)}
       ELSE IF f.i <= Len(N.body) THEN {SR(PushChild(S, N.body[f.i]), env, NoEff)}
       ELSE {SR(SetTop(S, NextRound(A, f)), env, NoEff)}
  ELSE IF kind = "forlist" THEN
       IF f.ph = 0 THEN {SR(SetTop(S, [f EXCEPT !.ph = 2, !.vals = <<Z>>]), env, NoEff)}
       ELSE IF f.ph = 2 THEN
            (IF vals[1][1] < Len(N.vals) THEN
                  {SR(SetTop(SetVar(S, N.sc, N.name, N.vals[vals[1][1] + 1]), [f EXCEPT !.ph = 1, !.i = 1]), env, NoEff)}
             ELSE {SR(PopS(S), env, NoEff)})
       ELSE IF f.i <= Len(N.body) THEN {SR(PushChild(S, N.body[f.i]), env, NoEff)}
       ELSE {SR(SetTop(S, NextRound(A, f)), env, NoEff)}
  ELSE IF kind = "break" THEN
       LET j == InnerMost(A, S, IsLoop) IN
       IF j = 0 THEN {SR(SErr(S, "BREAK_OUTSIDE_LOOP"), env, NoEff)}
       ELSE {SR([S EXCEPT !.k = SubSeq(S.k, 1, j - 1)], env, NoEff)}
  ELSE IF kind = "continue" THEN
       LET j == InnerMost(A, S, IsLoop) IN
       IF j = 0 THEN {SR(SErr(S, "CONTINUE_OUTSIDE_LOOP"), env, NoEff)}
       ELSE {SR([S EXCEPT !.k = [q \in 1..j |-> IF q = j THEN NextRound(A, S.k[j]) ELSE S.k[q]]], env, NoEff)}
  \* ---- calls ---------------------------------------------------------------------------------
  ELSE IF kind = "call" THEN
       IF N.name \notin DOMAIN A.funcs THEN {SR(SErr(S, "UNKNOWN_FUNCTION"), env, NoEff)}
       ELSE LET F == A.funcs[N.name] IN
       IF f.ph = 0 THEN
            (IF f.i <= nch THEN {SR(PushChild(S, N.ch[f.i]), env, NoEff)}
             ELSE IF Len(F.params) # nch THEN {SR(SErr(S, "ARITY"), env, NoEff)}
             ELSE IF Len(S.locs) >= 12 THEN {SR(SErr(S, "CALL_DEPTH"), env, NoEff)}
             ELSE LET loc == [p \in {F.params[q] : q \in 1..Len(F.params)} |->
                                 vals[CHOOSE q \in 1..Len(F.params) : F.params[q] = p]] @@ NoVars IN
                  {SR(SetTop([S EXCEPT !.locs = Append(@, loc)], [f EXCEPT !.ph = 1, !.i = 1, !.vals = <<>>]), env, NoEff)})
       ELSE IF f.i <= Len(F.body) THEN {SR(PushChild(S, F.body[f.i]), env, NoEff)}
       ELSE {SR(Return(A, S, Z), env, NoEff)}                 \* fell off the end of the function
  ELSE {SR(SErr(S, "UNSUPPORTED_NODE"), env, NoEff)}
=============================================================================
