------------------------------- MODULE Equiv2 -------------------------------
(***************************************************************************)
(* Two IC10 programs (A = reference, B = candidate) run against one shared *)
(* device environment; the property is that they produce the same sequence *)
(* of externally visible effects for every environment.                    *)
(*                                                                         *)
(* Scheduling: A runs until it emits an effect (which becomes `pend`),     *)
(* then B runs until it emits; the two effects must be equal; the memo of  *)
(* device reads is cleared (a new epoch: devices may have changed) and A   *)
(* runs again.  Between two effects each machine is deterministic given    *)
(* env, so a silent endless loop is detected exactly (Brent checkpoints:   *)
(* ck, ckn, ckp) and recorded in da / db.                                  *)
(*                                                                         *)
(* Many cases are checked in one TLC run: tid selects the case.  A         *)
(* violation moves the state to a canonical sink <<tid, verdict>> so that  *)
(* TLC's own de-duplication yields one report per (case, verdict).         *)
(***************************************************************************)
EXTENDS IC10Core, Json

Cases == JsonDeserialize("cases.json")

VARIABLES tid, verdict, a, b, env, pend, n, da, db, ck, ckn, ckp
vars == <<tid, verdict, a, b, env, pend, n, da, db, ck, ckn, ckp>>

J == Cases[tid]
PA == J.pa
PB == J.pb
Dom == {J.dom[k] : k \in 1..Len(J.dom)}
MaxN == J.maxn          \* 0: no effect counter (states merge; bounded by MaxLevel)
Fuel == J.fuel
MaxLevel == J.maxlevel

Init == /\ tid \in 1..Len(Cases) /\ verdict = ""
        /\ a = NewMachineN(IF "nrega" \in DOMAIN Cases[tid] THEN Cases[tid].nrega ELSE 17)
        /\ b = NewMachine /\ env = <<>> /\ pend = NoEff /\ n = 0
        /\ da = FALSE /\ db = FALSE /\ ck = <<>> /\ ckn = 0 /\ ckp = 1

QuietA == a.st # "run" \/ da
QuietB == b.st # "run" \/ db
LevelOK == MaxLevel = 0 \/ TLCGet("level") < MaxLevel
Budget == (MaxN = 0 \/ n < MaxN) /\ LevelOK
ATurn == pend = NoEff /\ ~QuietA /\ Budget
BTurn == ~ATurn /\ ~QuietB /\ Budget /\ (pend # NoEff \/ QuietA)

Sink(v) == /\ verdict' = v /\ tid' = tid /\ a' = NewMachine /\ b' = NewMachine /\ env' = <<>>
           /\ pend' = NoEff /\ n' = 0 /\ da' = FALSE /\ db' = FALSE /\ ck' = <<>> /\ ckn' = 0 /\ ckp' = 1

\* the differing positions of two effects of the same kind all involve a symbolic value
DiffSym(e, f) == e[1] = f[1] /\ \A k \in 2..6 : e[k] = f[k] \/ IsSym(e[k]) \/ IsSym(f[k])

Snap == IF ATurn THEN <<"a", a, env>> ELSE <<"b", b, env>>
BrentReset == ck' = <<>> /\ ckn' = 0 /\ ckp' = 1
BrentTick == IF ckn + 1 = ckp THEN ck' = Snap /\ ckn' = 0 /\ ckp' = 2 * ckp
             ELSE ck' = ck /\ ckn' = ckn + 1 /\ ckp' = ckp

Inconclusive(why) == why \in {"SYMBOLIC_BRANCH", "UNRESOLVED_OPERAND", "UNSUPPORTED_INSTRUCTION"}

StepA ==
  /\ verdict = "" /\ ATurn /\ Snap # ck /\ ckp <= Fuel
  /\ \E r \in IcSuccMon(PA, a, env, Dom) :
       /\ a' = r.m /\ env' = r.env /\ pend' = r.eff
       /\ IF r.eff # NoEff THEN BrentReset ELSE BrentTick
  /\ UNCHANGED <<tid, verdict, b, n, da, db>>

DivergeA ==
  /\ verdict = "" /\ ATurn /\ Snap = ck
  /\ da' = TRUE /\ BrentReset
  /\ UNCHANGED <<tid, verdict, a, b, env, pend, n, db>>

StepB ==
  /\ verdict = "" /\ BTurn /\ Snap # ck /\ ckp <= Fuel
  /\ \E r \in IcSuccMon(PB, b, env, Dom) :
       IF r.eff = NoEff THEN
            /\ b' = r.m /\ env' = r.env /\ BrentTick
            /\ UNCHANGED <<tid, verdict, a, pend, n, da, db>>
       ELSE IF pend = NoEff THEN Sink("EXTRA_EFFECT_B")
       ELSE IF r.eff = pend THEN
            /\ b' = r.m /\ env' = ClearEpoch(r.env) /\ pend' = NoEff
            /\ n' = (IF MaxN = 0 THEN 0 ELSE n + 1) /\ BrentReset
            /\ UNCHANGED <<tid, verdict, a, da, db>>
       ELSE IF DiffSym(r.eff, pend) THEN Sink("INCONCLUSIVE:INEXACT")
       ELSE Sink("EFFECT_MISMATCH")

DivergeB ==
  /\ verdict = "" /\ BTurn /\ Snap = ck
  /\ db' = TRUE /\ BrentReset
  /\ UNCHANGED <<tid, verdict, a, b, env, pend, n, da>>

Judge ==
  /\ verdict = ""
  /\ \/ a.st = "err" /\ Sink((IF Inconclusive(a.why) THEN "INCONCLUSIVE:A:" ELSE "FAULT_A:") \o a.why)
     \/ b.st = "err" /\ Sink((IF Inconclusive(b.why) THEN "INCONCLUSIVE:B:" ELSE "FAULT_B:") \o b.why)
     \/ a.mv # "" /\ Sink("MON_A:" \o a.mv)
     \/ b.mv # "" /\ Sink("MON_B:" \o b.mv)
     \/ a.st # "err" /\ b.st # "err" /\ pend # NoEff /\ QuietB /\ Sink("MISSING_EFFECT_B")
     \/ (ATurn \/ BTurn) /\ Snap # ck /\ ckp > Fuel /\ Sink("INCONCLUSIVE:FUEL")
     \/ ~LevelOK /\ (~QuietA \/ ~QuietB) /\ Sink("INCONCLUSIVE:DEPTH")

Report ==
  /\ verdict # "" /\ verdict # "reported"
  /\ PrintT(<<"VERDICT", tid, verdict>>)
  /\ verdict' = "reported"
  /\ UNCHANGED <<tid, a, b, env, pend, n, da, db, ck, ckn, ckp>>

Next == StepA \/ DivergeA \/ StepB \/ DivergeB \/ Judge \/ Report
Spec == Init /\ [][Next]_vars

\* for single-case replays: TLC prints the behaviour that reaches the verdict
NoViolation == verdict \notin {"EFFECT_MISMATCH", "EXTRA_EFFECT_B", "MISSING_EFFECT_B"}
NoVerdict == verdict = ""
=============================================================================
