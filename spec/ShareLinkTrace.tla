--------------------------- MODULE ShareLinkTrace ---------------------------
(***************************************************************************)
(* Trace validation for C18 (code -> spec).  The harness wraps zlib in the *)
(* real encode_data / decode_data and records, per call pair,              *)
(*   raw   bytes produced by zlib.compress inside encode_data              *)
(*   enc   the text encode_data returned (ASCII codes)                     *)
(*   back  bytes handed to zlib.decompress inside decode_data (or <<-1>>   *)
(*         when decode_data raised before reaching it)                     *)
(* Each observation must be a behaviour of ShareLink's pipeline: the same  *)
(* actions are taken, and at the two observable points the state must be   *)
(* the recorded one.  All observations are checked in one TLC run (tid).   *)
(***************************************************************************)
EXTENDS ShareLink

Obs == JsonDeserialize("obs.json")
VARIABLES tid, verdict

TInit == /\ tid \in 1..Len(Obs) /\ verdict = ""
         /\ input = Obs[tid].raw /\ s = input /\ phase = "raw" /\ enc = <<>>

Clause == IF phase' = "enc" /\ s' # Obs[tid].enc THEN "ENC_MISMATCH"
          ELSE IF phase' = "enc" /\ ~UrlSafe(s') THEN "NOT_URL_SAFE"
          ELSE IF phase' = "url" /\ s' # enc' THEN "CHANGED_IN_URL"
          ELSE IF phase' = "dec" /\ Obs[tid].back # s' THEN "DEC_MISMATCH"
          ELSE IF phase' = "dec" /\ s' # input THEN "ROUND_TRIP"
          ELSE ""
TNext == /\ verdict = "" /\ Next /\ UNCHANGED tid
         /\ verdict' = Clause
Done == /\ verdict = "" /\ phase = "dec" /\ verdict' = "OK" /\ UNCHANGED <<vars, tid>>
Report == /\ verdict \notin {"", "reported"} /\ PrintT(<<"VERDICT", tid, verdict>>)
          /\ verdict' = "reported" /\ UNCHANGED <<vars, tid>>
TSpec == TInit /\ [][TNext \/ Done \/ Report]_<<vars, tid, verdict>>
=============================================================================
