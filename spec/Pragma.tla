------------------------------- MODULE Pragma -------------------------------
(***************************************************************************)
(* In-source '# pytrapic:' directives (C15) as a fold over the lines of    *)
(* the main source.  A line is abstracted to                               *)
(*   lead  "hash"   first non-blank character is '#', marker present       *)
(*         "ihash"  the same, indented                                     *)
(*         "trail"  code followed by a comment that holds the marker       *)
(*         "str"    a code line with the marker inside a string literal    *)
(*         "plain"  a comment line without the marker                      *)
(*   tags  the comma separated names after the marker, each                *)
(*         [name, neg, sep, negsep]: option name (or an unknown name),     *)
(*         negated by a 'no' prefix, spelled with '-' or '_'               *)
(* Only "hash"/"ihash" lines act; tags act left to right, lines top to     *)
(* bottom, so the last mention of an option wins; unknown names and        *)
(* unnamed options are left alone.                                         *)
(*                                                                         *)
(* The generator part builds every directive text inside the bounds; each  *)
(* complete state is exported and replayed through the real compile_code.  *)
(***************************************************************************)
EXTENDS Integers, Sequences, FiniteSets, TLC, Json, SequencesExt

CONSTANTS Names,      \* option names that may be mentioned (real ones and unknown ones)
          Known,      \* the real ones among them
          MaxLines, MaxTags

Leads == {"hash", "ihash", "trail", "str", "plain"}
Seps == {"-", "_"}
Tag == [name : Names, neg : BOOLEAN, sep : Seps]
Acts(ln) == ln.lead \in {"hash", "ihash"}

ApplyTag(o, t) == IF t.name \in DOMAIN o THEN [o EXCEPT ![t.name] = ~t.neg] ELSE o
ApplyLine(o, ln) == IF Acts(ln) THEN FoldLeft(ApplyTag, o, ln.tags) ELSE o
Effective(lines, o) == FoldLeft(ApplyLine, o, lines)

VARIABLES lines, cur, open
vars == <<lines, cur, open>>
Init == lines = <<>> /\ cur = <<>> /\ open = ""
StartLine(ld) == /\ open = "" /\ Len(lines) < MaxLines /\ open' = ld /\ cur' = <<>> /\ UNCHANGED lines
AddTag(t) == /\ open # "" /\ Len(cur) < MaxTags /\ (open = "plain" => FALSE)
             /\ cur' = Append(cur, t) /\ UNCHANGED <<lines, open>>
EndLine == /\ open # "" /\ lines' = Append(lines, [lead |-> open, tags |-> cur]) /\ open' = "" /\ cur' = <<>>
Next == (\E ld \in Leads : StartLine(ld)) \/ (\E t \in Tag : AddTag(t)) \/ EndLine
Spec == Init /\ [][Next]_vars

AllFalse == [n \in Known |-> FALSE]
AllTrue == [n \in Known |-> TRUE]

\* ---- properties of the fold (checked on every generated text) -------------------------
Mentions(n) == {<<i, j>> \in (1..Len(lines)) \X (1..MaxTags) :
                   Acts(lines[i]) /\ j <= Len(lines[i].tags) /\ lines[i].tags[j].name = n}
Later(p, q) == p[1] > q[1] \/ (p[1] = q[1] /\ p[2] >= q[2])
LastMention(n) == CHOOSE p \in Mentions(n) : \A q \in Mentions(n) : Later(p, q)
LastWins == \A o \in {AllFalse, AllTrue} : \A n \in Known :
              Mentions(n) # {} => Effective(lines, o)[n] = ~lines[LastMention(n)[1]].tags[LastMention(n)[2]].neg
UnnamedUntouched == \A o \in {AllFalse, AllTrue} : \A n \in Known :
              Mentions(n) = {} => Effective(lines, o)[n] = o[n]
InertLinesInert == (\A i \in 1..Len(lines) : ~Acts(lines[i])) => Effective(lines, AllTrue) = AllTrue

Complete == open = ""
Export == Complete => PrintT(<<"SCEN", ToJson([lines |-> lines, eff_false |-> Effective(lines, AllFalse),
                                                eff_true |-> Effective(lines, AllTrue)])>>)
=============================================================================
