------------------------------- MODULE Tables -------------------------------
(***************************************************************************)
(* Internal consistency of the generated device, enum and instruction      *)
(* tables (C16).  The harness reflects the imported modules of the working *)
(* tree into entries.json (lib/tables.py); TLC evaluates one verdict per   *)
(* entry, exhaustively over all entries.                                   *)
(*                                                                         *)
(* structure entry: name, hash, prefab (bytes), numbered / named slots     *)
(*   (name, idx = slot index the object resolves to, decl = the number in  *)
(*   the declaration, n = the N of slotN), plurals (the batch forms with   *)
(*   the same prefab name), logic (property -> logic type name)            *)
(* wrapper entry: name of the intrinsic function, op and operand order of  *)
(*   the instruction it returns for distinct marker arguments, has_out     *)
(* enum entry: members (name, value)                                       *)
(*                                                                         *)
(* OpSig (IC10Grammar.tla) says which opcodes exist, how many operands     *)
(* they take and whether the first is an output register.                  *)
(***************************************************************************)
EXTENDS IC10Grammar, Crc32

Entries == JsonDeserialize("entries.json")

SeqToSet(q) == {q[i] : i \in 1..Len(q)}
Injective(q, F(_)) == \A i, j \in 1..Len(q) : F(q[i]) = F(q[j]) => i = j

SlotsOK(numbered, named) ==
  /\ \A i \in 1..Len(numbered) : numbered[i].idx = numbered[i].n /\ numbered[i].decl = numbered[i].n
  /\ Injective(numbered, LAMBDA x : x.n)
  /\ \A i \in 1..Len(named) : /\ named[i].idx = named[i].decl
                              /\ \E k \in 1..Len(numbered) : numbered[k].n = named[i].idx
  /\ Injective(named, LAMBDA x : x.idx)

\* name -> index maps agree (singular form vs batch form)
SameSlots(a, b) == {<<a[i].name, a[i].idx>> : i \in 1..Len(a)} = {<<b[i].name, b[i].idx>> : i \in 1..Len(b)}

\* on a batch form these names select the batch method, not the logic type of the same name
BatchNames == {"Minimum", "Maximum", "Average", "Sum"}
LogicOK(l) == \A i \in 1..Len(l) : l[i].known /\ l[i].prop = l[i].lt

StructureVerdict(e) ==
  IF ~e.hash_is_int THEN "HASH_NOT_A_NUMBER"
  ELSE IF SignedCrc32(e.prefab) # e.hash THEN "HASH_IS_NOT_CRC32_OF_PREFAB_NAME"
  ELSE IF ~e.reachable THEN "SINGULAR_NOT_REACHABLE"
  ELSE IF Len(e.plurals) = 0 THEN "NO_BATCH_FORM"
  ELSE IF Len(e.plurals) > 1 THEN "SEVERAL_BATCH_FORMS"
  ELSE LET p == e.plurals[1] IN
  IF ~p.reachable THEN "BATCH_FORM_NOT_REACHABLE"
  ELSE IF ~p.hash_is_int \/ p.hash # e.hash \/ p.prefab # e.prefab THEN "BATCH_FORM_HASH_DIFFERS"
  \* Plural.Average / .Sum / .Minimum / .Maximum give the singular form of the same prefab (and keep the name filter)
  \* (a structure that has a logic type called Minimum / Maximum keeps that name for the logic type)
  ELSE IF \E i \in 1..Len(p.methods) : /\ p.methods[i].m \notin {e.logic[j].prop : j \in 1..Len(e.logic)}
                                       /\ (p.methods[i].cls # e.name \/ p.methods[i].prefab # e.prefab \/ p.methods[i].named # <<110, 109>>)
       THEN "BATCH_METHOD_FORM_IS_ANOTHER_STRUCTURE"
  ELSE IF ~SlotsOK(e.numbered, e.named) THEN "NAMED_SLOT_DOES_NOT_RESOLVE_TO_ITS_NUMBER"
  ELSE IF ~SlotsOK(p.numbered, p.named) THEN "BATCH_NAMED_SLOT_DOES_NOT_RESOLVE_TO_ITS_NUMBER"
  ELSE IF ~SameSlots(e.numbered, p.numbered) \/ ~SameSlots(e.named, p.named) THEN "BATCH_FORM_SLOTS_DIFFER"
  ELSE IF ~LogicOK(e.logic) \/ ~LogicOK(p.logic) THEN "LOGIC_TYPE_PROPERTY_MISMATCH"
  ELSE IF {e.logic[i].prop : i \in 1..Len(e.logic)} \ BatchNames # {p.logic[i].prop : i \in 1..Len(p.logic)} \ BatchNames THEN "BATCH_FORM_LOGIC_TYPES_DIFFER"
  \* the same tables observed through the compiler (one generated program per structure, compact mode)
  ELSE IF ~e.dyn.ok THEN "GENERATED_PROGRAM_DOES_NOT_COMPILE"
  ELSE IF e.dyn.lb_hash # e.hash THEN "COMPILED_BATCH_HASH_DIFFERS"
  ELSE IF e.dyn.sb_hash # e.hash THEN "COMPILED_BATCH_WRITE_HASH_DIFFERS"
  ELSE IF \E i \in 1..Len(e.dyn.all_hashes) : e.dyn.all_hashes[i] # e.hash THEN "COMPILED_BATCH_HASH_DIFFERS_IN_SOME_FORM"
  ELSE IF \E i \in 1..Len(e.dyn.slots) : e.dyn.slots[i].got # e.dyn.slots[i].want THEN "COMPILED_SLOT_NUMBER_DIFFERS"
  ELSE "OK"

\* Python keywords / builtins get a trailing underscore in the wrapper's name
Strip_(n) == CASE n = "yield_" -> "yield" [] n = "and_" -> "and" [] n = "or_" -> "or" [] n = "not_" -> "not" [] OTHER -> n
\* `ins` modifies its register in place (read and written): the wrapper takes it as an argument
InOut == {"ins"}
YieldsResult(op) == HasOutput(op) /\ op \notin InOut
NumIn(op) == Len(OpSig[op]) - (IF YieldsResult(op) THEN 1 ELSE 0)

WrapperVerdict(e) ==
  IF ~e.callable THEN "WRAPPER_DOES_NOT_RETURN_AN_INSTRUCTION"
  ELSE IF e.op # Strip_(e.name) THEN "WRAPPER_EMITS_OTHER_INSTRUCTION"
  ELSE IF e.op \notin Opcodes THEN "UNKNOWN_OPCODE"
  ELSE IF ~e.in_json THEN "OPCODE_NOT_IN_EDITOR_TABLE"
  ELSE IF e.has_out # YieldsResult(e.op) THEN "RESULT_WITHOUT_OUTPUT_REGISTER_OR_VICE_VERSA"
  ELSE IF Len(e.ops) # NumIn(e.op) \/ e.nargs # NumIn(e.op) THEN "OPERAND_COUNT"
  ELSE IF \E i \in 1..Len(e.ops) : e.ops[i] # i - 1 THEN "OPERANDS_OUT_OF_ORDER"
  ELSE "OK"

EnumVerdict(e) ==
  IF ~Injective(e.members, LAMBDA m : m.value) THEN "TWO_NAMES_SHARE_A_NUMBER"
  ELSE IF ~Injective(e.members, LAMBDA m : m.name) THEN "DUPLICATE_NAME"
  ELSE IF \E i \in 1..Len(e.members) : e.members[i].name # e.members[i].canonical THEN "ALIAS_MEMBER"
  ELSE "OK"

\* table-level: the editor's table and OpSig name the same opcodes
GlobalVerdict(e) ==
  IF SeqToSet(e.json_ops) # Opcodes THEN "EDITOR_TABLE_AND_OPSIG_DIFFER"
  ELSE IF Len(e.orphan_plurals) > 0 THEN "BATCH_FORM_WITHOUT_SINGULAR"
  ELSE IF SeqToSet(e.wrapper_ops) # Opcodes \ {"label"} THEN "OPCODE_WITHOUT_WRAPPER"
  ELSE "OK"

Verdict(e) == CASE e.kind = "structure" -> StructureVerdict(e)
                [] e.kind = "wrapper" -> WrapperVerdict(e)
                [] e.kind = "enum" -> EnumVerdict(e)
                [] e.kind = "global" -> GlobalVerdict(e)

VARIABLES tid, verdict
Init == tid \in 1..Len(Entries) /\ verdict = ""
Judge == verdict = "" /\ verdict' = Verdict(Entries[tid]) /\ UNCHANGED tid
Report == /\ verdict \notin {"", "reported"} /\ PrintT(<<"VERDICT", tid, verdict>>)
          /\ verdict' = "reported" /\ UNCHANGED tid
Spec == Init /\ [][Judge \/ Report]_<<tid, verdict>>
=============================================================================
