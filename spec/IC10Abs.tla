------------------------------- MODULE IC10Abs -------------------------------
(***************************************************************************)
(* An abstraction of the IC10 machine that forgets data values, so that    *)
(* the state space of one emitted program is finite and TLC explores ALL   *)
(* its paths: every conditional branch goes both ways, for any device      *)
(* inputs and any number of ticks (C06, C07).                              *)
(*                                                                         *)
(* Kept exactly: pc; ra (a line number or Top); sp (an integer); the cells *)
(* of the chip's memory written by push / poke / put db with a constant    *)
(* address (each a line number or Top); the call monitor of IC10Core       *)
(* (shadow stack of <<return line, sp at the call>>, fall-through flag).   *)
(* Forgotten: every other register and every value.                        *)
(*                                                                         *)
(* Program records are the loader's, with the monitor annotations of       *)
(* IC10Core (ent, cal, rv) and, on `jr <register>` lines, `jt`: the lines  *)
(* the jump table behind it can reach (recognised from the text by the     *)
(* harness; absent -> verdict UNKNOWN_COMPUTED_JUMP, never a proof).       *)
(*                                                                         *)
(* Soundness (argued, not machine-checked): every concrete step of         *)
(* IC10Core maps to an abstract step on the projected state - branches are *)
(* over-approximated, a pop/peek of a cell not tracked gives Top, writes   *)
(* with a run-time address are assumed not to hit a cell holding a saved   *)
(* return address (the user's data area and the call stack are disjoint).  *)
(* So if no abstract path reaches a monitor verdict, no concrete execution *)
(* does.  The converse fails (infeasible paths): an abstract verdict is an *)
(* alarm to be confirmed by the concrete product, never reported by itself.*)
(***************************************************************************)
EXTENDS Integers, Sequences, FiniteSets, TLC, Json

Cases == JsonDeserialize("cases.json")
Top == <<"T">>
Ln(n) == <<"L", n>>
MaxSp == 40

VARIABLES tid, verdict, pc, ra, sp, mem, sh, fl, halted
vars == <<tid, verdict, pc, ra, sp, mem, sh, fl, halted>>
P == Cases[tid].prog
HasF(i, f) == f \in DOMAIN i

Init == /\ tid \in 1..Len(Cases) /\ verdict = "" /\ pc = 0 /\ ra = Top /\ sp = 0 /\ mem = <<>> /\ sh = <<>> /\ fl = FALSE /\ halted = FALSE

IsRa(o) == o[1] = "r" /\ o[2] = 17
IsSp(o) == o[1] = "r" /\ o[2] = 16
IsNum(o) == o[1] = "v" /\ Len(o[2]) = 2 /\ o[2][2] = 1
NumOf(o) == o[2][1]
AbsOf(o) == IF IsRa(o) THEN ra ELSE Top
\* operand 1 is an output register for these opcodes (the loader gives OpSig's kinds as i.k)
WritesRa(i) == Len(i.a) > 0 /\ HasF(i, "out") /\ i.out /\ IsRa(i.a[1])
WritesSp(i) == Len(i.a) > 0 /\ HasF(i, "out") /\ i.out /\ IsSp(i.a[1])

Sink(v) == /\ verdict' = v /\ pc' = 0 /\ ra' = Top /\ sp' = 0 /\ mem' = <<>> /\ sh' = <<>> /\ fl' = FALSE /\ halted' = TRUE /\ UNCHANGED tid

\* successor: [pc, ra, sp, mem] after instruction i at line pc, branch choice taken \in BOOLEAN
Targets(i) ==
  LET op == i.op
      n == Len(i.a) IN
  IF op \in {"j", "jal"} THEN
       (IF i.a[1][1] = "r" THEN (IF IsRa(i.a[1]) /\ ra # Top THEN {ra[2]} ELSE {-1})
        ELSE IF IsNum(i.a[1]) THEN {NumOf(i.a[1])} ELSE {-1})
  ELSE IF op = "jr" THEN
       (IF IsNum(i.a[1]) THEN {pc + NumOf(i.a[1])} ELSE IF HasF(i, "jt") THEN {i.jt[k] : k \in 1..Len(i.jt)} ELSE {-2})
  ELSE IF HasF(i, "br") THEN      \* conditional branch: i.br = "abs" | "rel"; last operand is the target
       LET t == i.a[n] IN
       (IF IsNum(t) THEN {IF i.br = "rel" THEN pc + NumOf(t) ELSE NumOf(t)} ELSE {-2}) \cup {pc + 1}
  ELSE {pc + 1}

Step ==
  /\ verdict = "" /\ ~halted
  /\ IF pc >= Len(P) THEN halted' = TRUE /\ UNCHANGED <<tid, verdict, pc, ra, sp, mem, sh, fl>>
     ELSE
     LET i == P[pc + 1]
         op == i.op IN
     \E t \in Targets(i) :
       IF t = -1 THEN Sink("RETURN_TO_UNKNOWN_ADDRESS")
       ELSE IF t = -2 THEN Sink("UNKNOWN_COMPUTED_JUMP")
       ELSE IF t < 0 THEN Sink("BAD_TARGET")
       ELSE
       LET seq == (t = pc + 1)
           islink == op = "jal" \/ (HasF(i, "al") /\ i.al /\ ~seq)
           ra1 == IF islink THEN Ln(pc + 1) ELSE IF WritesRa(i) THEN Top ELSE ra
           \* stack effects
           isPush == op = "push"
           isPop == op \in {"pop", "peek"}
           cell == IF isPop /\ (sp - 1) \in DOMAIN mem THEN mem[sp - 1] ELSE Top
           ra2 == IF isPop /\ IsRa(i.a[1]) THEN cell ELSE ra1
           sp1 == IF isPush THEN sp + 1 ELSE IF op = "pop" THEN sp - 1 ELSE sp
           mem1 == IF isPush THEN (sp :> AbsOf(i.a[1])) @@ mem
                   ELSE IF op = "poke" /\ IsNum(i.a[1]) /\ NumOf(i.a[1]) < MaxSp THEN (NumOf(i.a[1]) :> AbsOf(i.a[2])) @@ mem
                   ELSE IF op = "put" /\ i.a[1][1] = "d" /\ i.a[1][2] = "db" /\ IsNum(i.a[2]) /\ NumOf(i.a[2]) < MaxSp THEN (NumOf(i.a[2]) :> AbsOf(i.a[3])) @@ mem
                   ELSE mem
           \* forget cells at and above sp after a pop (they are dead)
           mem2 == IF op = "pop" THEN [a \in {x \in DOMAIN mem1 : x < sp1} |-> mem1[a]] ELSE mem1
       IN
       IF WritesSp(i) THEN Sink("STACK_POINTER_ASSIGNED")
       ELSE IF sp1 < 0 \/ sp1 > MaxSp THEN Sink("STACK_POINTER_RANGE")
       ELSE IF op = "hcf" THEN halted' = TRUE /\ UNCHANGED <<tid, verdict, pc, ra, sp, mem, sh, fl>>
       \* ---- the monitor (same rules as IC10Core!Monitor) ----
       ELSE IF HasF(i, "ent") /\ i.ent /\ fl THEN Sink("FALLTHROUGH")
       ELSE IF op = "j" /\ ~HasF(i, "cal") /\ ~HasF(i, "tc") /\ t < Len(P) /\ HasF(P[t + 1], "ent") /\ P[t + 1].ent THEN Sink("ENTERED_WITHOUT_CALL")
       ELSE IF HasF(i, "cal") /\ ~seq THEN
            /\ sh' = Append(sh, <<pc + 1, sp - (IF i.cal.pp THEN i.cal.ar ELSE 0)>>)
            /\ pc' = t /\ ra' = ra2 /\ sp' = sp1 /\ mem' = mem2 /\ fl' = FALSE /\ UNCHANGED <<tid, verdict, halted>>
       ELSE IF HasF(i, "rv") /\ op = "j" THEN
            IF Len(sh) = 0 THEN Sink("RETURN_WITHOUT_CALL")
            ELSE LET top == sh[Len(sh)] IN
                 IF t # top[1] THEN Sink("BAD_RETURN")
                 ELSE IF sp # top[2] + i.rv THEN Sink("SP_DRIFT")
                 ELSE /\ sh' = SubSeq(sh, 1, Len(sh) - 1)
                      /\ pc' = t /\ ra' = ra2 /\ sp' = sp1 /\ mem' = mem2 /\ fl' = FALSE /\ UNCHANGED <<tid, verdict, halted>>
       ELSE /\ pc' = t /\ ra' = ra2 /\ sp' = sp1 /\ mem' = mem2 /\ fl' = seq /\ UNCHANGED <<tid, verdict, sh, halted>>

Report ==
  /\ verdict # "" /\ verdict # "reported"
  /\ PrintT(<<"VERDICT", tid, verdict>>)
  /\ verdict' = "reported" /\ UNCHANGED <<tid, pc, ra, sp, mem, sh, fl, halted>>

Next == Step \/ Report
Spec == Init /\ [][Next]_vars
\* the call depth is bounded by the (acyclic) call graph: a sanity bound that must never be hit
DepthBound == Len(sh) <= 12
=============================================================================
