---------------------------- MODULE SessionTrace ----------------------------
(***************************************************************************)
(* Trace validation for C11 (code -> spec).  A trace is what the harness   *)
(* observed around every compile_code call of one long-lived process:      *)
(*   src, obj        which source of the pool, which caller object         *)
(*   before, after   the option object's field values before / after       *)
(*   mode, hinit, cache   process-wide state after the call (cache = the   *)
(*                   pool sources whose constexpr text is in the cache)    *)
(*   same            the result equals the fresh-process result for        *)
(*                   (source, options as passed)                           *)
(*   spawned         a helper process was started during the call          *)
(* Every step must be Session!Compile(src, obj) and the observed state     *)
(* must be the specification's state after that action.  Many traces are   *)
(* checked in one run (tid); the verdict names the first failing step and  *)
(* clause.                                                                 *)
(***************************************************************************)
EXTENDS Session

Traces == JsonDeserialize("traces.json")
VARIABLES tid, l, verdict
tvars == <<vars, tid, l, verdict>>
T == Traces[tid]

TInit == /\ tid \in 1..Len(Traces) /\ l = 1 /\ verdict = ""
         /\ mode = Traces[tid][1].mode0 /\ hinit = Traces[tid][1].hinit0
         /\ cache = {s \in SrcIds : Src(s).cx /\ \E k \in 1..Len(Traces[tid][1].cache0) : Traces[tid][1].cache0[k] = s}
         /\ objs = [i \in ObjIds |-> Pool.objs[i]] /\ last = <<>> /\ n = 0 /\ hist = <<>>

ToSet(q) == {q[k] : k \in 1..Len(q)}
Clause(e) ==
  IF e.before # objs[e.obj] THEN "OBJECT_CHANGED_BETWEEN_CALLS"
  ELSE IF e.after # objs'[e.obj] THEN "CALLER_OPTIONS_MODIFIED"
  ELSE IF ~e.same THEN "RESULT_DIFFERS_FROM_FRESH_PROCESS"
  ELSE IF e.mode # mode' THEN "OUTPUT_MODE_NOT_THE_CALLS"
  ELSE IF ToSet(e.cache) # cache' THEN "CONSTEXPR_CACHE_UNEXPECTED"
  ELSE IF e.hinit # hinit' THEN "HASH_TABLE_STATE_UNEXPECTED"
  ELSE IF e.spawned # last'.spawned THEN "HELPER_PROCESS_UNEXPECTED"
  ELSE ""
Step == /\ verdict = "" /\ l <= Len(T)
        /\ Compile(T[l].src, T[l].obj)
        /\ verdict' = (IF Clause(T[l]) = "" THEN "" ELSE Clause(T[l]) \o "@" \o ToString(l))
        /\ l' = l + 1 /\ UNCHANGED tid
Done == /\ verdict = "" /\ l = Len(T) + 1 /\ verdict' = "OK" /\ UNCHANGED <<vars, tid, l>>
Report == /\ verdict \notin {"", "reported"} /\ PrintT(<<"VERDICT", tid, verdict>>)
          /\ verdict' = "reported" /\ UNCHANGED <<vars, tid, l>>
TSpec == TInit /\ [][Step \/ Done \/ Report]_tvars
=============================================================================
