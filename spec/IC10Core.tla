------------------------------ MODULE IC10Core ------------------------------
(***************************************************************************)
(* The IC10 chip as a step function on machine records, so that several    *)
(* machines (two compiled programs, or a program and its source) can run   *)
(* inside one specification.  IC10.tla wraps it as an ordinary             *)
(* single-machine specification with one action per instruction class.     *)
(*                                                                         *)
(* A program P is a sequence of instruction records produced by the loader *)
(*   [op |-> "add", a |-> << operand, ... >>, ...]                         *)
(* operand:  <<"r", k>>   register k (0..15, 16 = sp, 17 = ra)             *)
(*           <<"v", val>> immediate value (numbers, resolved labels,       *)
(*                        hashes, enum members), see Values.tla            *)
(*           <<"d", name>> device pin d0..d5 / db                          *)
(*           <<"x", text>> something the loader could not resolve          *)
(* Lines are numbered from 0; label lines, alias and define lines stay in  *)
(* the program as no-ops that occupy a line, exactly as on the chip.       *)
(*                                                                         *)
(* Machine record:                                                         *)
(*   pc   line to execute next                                             *)
(*   reg  [0..17 -> value]                                                 *)
(*   mem  the chip's own stack memory, sparse: address -> value            *)
(*   st   "run" | "halt" (ran off the end / hcf) | "err"                   *)
(*   why  reason for "err"                                                 *)
(*   sh, fl, mv   monitor fields, see Monitor below                        *)
(*                                                                         *)
(* Environment: env is the memo of device reads of the current epoch, a    *)
(* sequence of <<key, value>>.  A read whose key is not yet in env picks   *)
(* any value of Dom and records it, so between two effects a machine is    *)
(* deterministic.  The product specifications clear env when an effect has *)
(* been matched (device values may change after every effect).  Keys of    *)
(* kind "imem" (initial contents of the chip's memory) are never cleared.  *)
(***************************************************************************)
EXTENDS Values, FiniteSets

SP == 16
RA == 17
NoEff == <<>>
DevAtom(n) == <<"D", n, "", "", "">>
Key(kind, x1, x2, x3, x4, x5) == <<kind, x1, x2, x3, x4, x5>>
Eff(kind, x1, x2, x3, x4, v) == <<kind, x1, x2, x3, x4, v>>

\* registers 18.. exist only in the virtual-register machine of C04 (one per virtual name)
NewMachineN(nr) == [pc |-> 0, reg |-> [k \in 0..nr |-> Z], mem |-> <<>>, st |-> "run", why |-> "",
               sh |-> <<>>, fl |-> FALSE, mv |-> ""]
NewMachine == NewMachineN(17)

\* ---- environment ---------------------------------------------------------
EnvHas(env, key) == \E j \in 1..Len(env) : env[j][1] = key
EnvGet(env, key) == env[CHOOSE j \in 1..Len(env) : env[j][1] = key][2]
\* set of <<value, env'>>
EnvRead(env, key, dom) ==
  IF EnvHas(env, key) THEN {<<EnvGet(env, key), env>>}
  ELSE {<<v, Append(env, <<key, v>>)>> : v \in dom}
IsPersistent(p) == p[1][1] = "imem"
ClearEpoch(env) == SelectSeq(env, IsPersistent)
BoolDom == {Z, One}

\* ---- instruction tables ----------------------------------------------------
Rels == {"eq", "ne", "lt", "le", "gt", "ge"}
\* conditional branches: b<rel>[z][al] and br<rel>[z]
BrTable ==
  { [op |-> "b" \o r \o z \o al, rel |-> r, z |-> (z = "z"), al |-> (al = "al"), rl |-> FALSE]
      : r \in Rels \cup {"ap", "na"}, z \in {"", "z"}, al \in {"", "al"} }
  \cup { [op |-> "br" \o r \o z, rel |-> r, z |-> (z = "z"), al |-> FALSE, rl |-> TRUE]
      : r \in Rels \cup {"ap", "na"}, z \in {"", "z"} }
  \cup { [op |-> "bnan", rel |-> "nan", z |-> TRUE, al |-> FALSE, rl |-> FALSE],
         [op |-> "brnan", rel |-> "nan", z |-> TRUE, al |-> FALSE, rl |-> TRUE] }
  \cup { [op |-> "b" \o r \o al, rel |-> r, z |-> TRUE, al |-> (al = "al"), rl |-> FALSE]
      : r \in {"dse", "dns"}, al \in {"", "al"} }
  \cup { [op |-> "br" \o r, rel |-> r, z |-> TRUE, al |-> FALSE, rl |-> TRUE] : r \in {"dse", "dns"} }
BrOps == {t.op : t \in BrTable}
BrMap == [o \in BrOps |-> CHOOSE t \in BrTable : t.op = o]
\* set-on-condition: s<rel>[z]
SetTable ==
  { [op |-> "s" \o r \o z, rel |-> r, z |-> (z = "z")] : r \in Rels \cup {"ap", "na"}, z \in {"", "z"} }
  \cup { [op |-> "snan", rel |-> "nan", z |-> TRUE], [op |-> "snanz", rel |-> "nanz", z |-> TRUE] }
SetOps == {t.op : t \in SetTable}
SetMap == [o \in SetOps |-> CHOOSE t \in SetTable : t.op = o]

Alu2Ops == {"add", "sub", "mul", "div", "mod", "pow", "max", "min", "atan2",
            "and", "or", "xor", "nor", "sll", "sla", "srl", "sra"}
Alu1Ops == {"move", "abs", "ceil", "floor", "round", "trunc", "sqrt", "exp", "log",
            "sin", "cos", "tan", "asin", "acos", "atan", "not"}
Alu2(op, x, y) ==
  CASE op = "add" -> Add(x, y) [] op = "sub" -> Sub(x, y) [] op = "mul" -> Mul(x, y)
    [] op = "div" -> Div(x, y) [] op = "mod" -> Mod(x, y) [] op = "pow" -> Pow(x, y)
    [] op = "max" -> Max(x, y) [] op = "min" -> Min(x, y) [] op = "atan2" -> Atan2(x, y)
    [] op \in {"and", "or", "xor", "nor"} -> BitBin(op, x, y)
    [] op \in {"sll", "sla", "srl", "sra"} -> Shift(op, x, y)
Alu1(op, x) ==
  CASE op = "move" -> x [] op = "abs" -> Abs(x) [] op = "ceil" -> Ceil(x) [] op = "floor" -> Floor(x)
    [] op = "round" -> Round(x) [] op = "trunc" -> Trunc(x) [] op = "sqrt" -> Sqrt(x)
    [] op = "not" -> BitNot(x)
    [] OTHER -> Fn1(op, x)

\* "yes" / "no" / "sym"
Tri(b) == IF b THEN "yes" ELSE "no"
CondRes(rel, x, y, c) ==
  IF rel \in Rels THEN (IF CmpUndecided(x, y) THEN "sym" ELSE Tri(Rel(rel, x, y)))
  ELSE IF rel = "ap" THEN Approx(x, y, c)
  ELSE IF rel = "na" THEN (LET r == Approx(x, y, c) IN IF r = "sym" THEN "sym" ELSE IF r = "yes" THEN "no" ELSE "yes")
  ELSE IF rel = "nan" THEN (IF IsSym(x) THEN "sym" ELSE Tri(x = NaN))
  ELSE IF rel = "nanz" THEN (IF IsSym(x) THEN "sym" ELSE Tri(x # NaN))
  ELSE "sym"

\* ---- operands --------------------------------------------------------------
IsReg(o) == o[1] = "r"
Val(m, o) == IF o[1] = "r" THEN m.reg[o[2]] ELSE IF o[1] = "v" THEN o[2] ELSE OVF
\* a device operand: pin, or a register / number holding a reference id
Dev(m, o) == IF o[1] = "d" THEN DevAtom(o[2]) ELSE Val(m, o)
IsSelf(o) == o[1] = "d" /\ o[2] = "db"
OperandsOK(i) == \A k \in 1..Len(i.a) : i.a[k][1] # "x"

Err(m, why) == [m EXCEPT !.st = "err", !.why = why]
Halt(m) == [m EXCEPT !.st = "halt"]
Adv(m) == [m EXCEPT !.pc = m.pc + 1]
SetR(m, o, v) == IF o[1] = "r" THEN [m EXCEPT !.reg[o[2]] = v, !.pc = m.pc + 1] ELSE Err(m, "OUTPUT_NOT_REGISTER")
R(m2, env, eff) == [m |-> m2, env |-> env, eff |-> eff]

\* an address of the 512-word memory, or -1
AddrOf(v) == IF IsInt(v) /\ v[1] >= 0 /\ v[1] <= 511 THEN v[1] ELSE -1
\* a line number, or -1 (the chip faults on a non-integer or negative target)
LineOf(v) == IF IsInt(v) /\ v[1] >= 0 THEN v[1] ELSE -1

Goto(m, t) == IF t < 0 THEN Err(m, "BAD_TARGET") ELSE [m EXCEPT !.pc = t]
GotoAL(m, t) == IF t < 0 THEN Err(m, "BAD_TARGET") ELSE [m EXCEPT !.pc = t, !.reg[RA] = Q(m.pc + 1)]
RelTarget(m, v) == IF IsInt(v) THEN (IF m.pc + v[1] >= 0 THEN m.pc + v[1] ELSE -1) ELSE -1

\* read the chip's own memory: written cell, or initial contents (an input)
\* initial contents range over the part {0, 1} of the case's domain (all of it if that part is empty): programs that
\* scan their memory would otherwise multiply the state space by |Dom| per cell
IDom(dom) == LET s == dom \cap {Z, One} IN IF s = {} THEN dom ELSE s
MemRead(m, env, a, dom) ==
  IF a \in DOMAIN m.mem THEN {<<m.mem[a], env>>}
  ELSE EnvRead(env, Key("imem", Q(a), Z, Z, Z, Z), IDom(dom))
MemWrite(m, a, v) == [m EXCEPT !.mem = (a :> v) @@ m.mem]

\* ---- one step ----------------------------------------------------------------
\* the set of [m, env, eff] successors of machine m running program P
IcSucc(P, m, env, Dom) ==
  IF m.st # "run" THEN {}
  ELSE IF m.pc >= Len(P) THEN {R(Halt(m), env, NoEff)}
  ELSE
  LET i == P[m.pc + 1]
      op == i.op
      a == i.a
      n == Len(a)
      V(k) == Val(m, a[k])
  IN
  IF ~OperandsOK(i) THEN {R(Err(m, "UNRESOLVED_OPERAND"), env, NoEff)}
  ELSE IF op \in {"label", "alias", "define", "nop"} THEN {R(Adv(m), env, NoEff)}
  ELSE IF op \in Alu2Ops /\ n = 3 THEN {R(SetR(m, a[1], Alu2(op, V(2), V(3))), env, NoEff)}
  ELSE IF op \in Alu1Ops /\ n = 2 THEN {R(SetR(m, a[1], Alu1(op, V(2))), env, NoEff)}
  ELSE IF op \in SetOps THEN
       LET t == SetMap[op]
           ap == t.rel \in {"ap", "na"}
           ok == IF t.z THEN (IF ap THEN n = 3 ELSE n = 2) ELSE (IF ap THEN n = 4 ELSE n = 3) IN
       IF ~ok THEN {R(Err(m, "BAD_OPERAND_COUNT"), env, NoEff)}
       ELSE LET x == V(2)
                y == IF t.z THEN Z ELSE V(3)
                c == IF ap THEN V(n) ELSE Z
                r == CondRes(t.rel, x, y, c) IN
            IF r = "sym" THEN {R(SetR(m, a[1], Term(op, x, y)), env, NoEff)}
            ELSE {R(SetR(m, a[1], B2V(r = "yes")), env, NoEff)}
  ELSE IF op = "select" /\ n = 4 THEN
       LET s == SignOf(V(2)) IN
       IF s = "sym" THEN {R(SetR(m, a[1], Term("select", V(2), Term("pair", V(3), V(4)))), env, NoEff)}
       ELSE {R(SetR(m, a[1], IF s = "zero" THEN V(4) ELSE V(3)), env, NoEff)}
  ELSE IF op = "lerp" /\ n = 4 THEN
       LET c == V(4)
           cc == IF IsSym(c) \/ c = NaN THEN c ELSE IF Rel("lt", c, Z) THEN Z ELSE IF Rel("gt", c, One) THEN One ELSE c IN
       {R(SetR(m, a[1], Add(V(2), Mul(Sub(V(3), V(2)), cc))), env, NoEff)}
  ELSE IF op = "rand" /\ n = 1 THEN
       {R(SetR(m, a[1], p[1]), p[2], NoEff) : p \in EnvRead(env, Key("rand", Z, Z, Z, Z, Z), Dom)}
  \* ---- jumps -------------------------------------------------------------
  ELSE IF op = "j" /\ n = 1 THEN {R(Goto(m, LineOf(V(1))), env, NoEff)}
  ELSE IF op = "jal" /\ n = 1 THEN {R(GotoAL(m, LineOf(V(1))), env, NoEff)}
  ELSE IF op = "jr" /\ n = 1 THEN {R(Goto(m, RelTarget(m, V(1))), env, NoEff)}
  ELSE IF op \in BrOps THEN
       LET t == BrMap[op]
           dv == t.rel \in {"dse", "dns"}
           ap == t.rel \in {"ap", "na"}
           cnt == IF dv THEN 2 ELSE IF t.rel = "nan" THEN 2
                  ELSE (IF t.z THEN 2 ELSE 3) + (IF ap THEN 1 ELSE 0) IN
       IF n # cnt THEN {R(Err(m, "BAD_OPERAND_COUNT"), env, NoEff)}
       ELSE
       LET tgtv == V(n)
           tgt == IF t.rl THEN RelTarget(m, tgtv) ELSE LineOf(tgtv)
           Take(mm) == IF t.al THEN GotoAL(mm, tgt) ELSE Goto(mm, tgt) IN
       IF dv THEN
            { R(IF (p[1] = One) = (t.rel = "dse") THEN Take(m) ELSE Adv(m), p[2], NoEff)
                : p \in EnvRead(env, Key("dse", Dev(m, a[1]), Z, Z, Z, Z), BoolDom) }
       ELSE LET x == V(1)
                y == IF t.z THEN Z ELSE V(2)
                c == IF ap THEN V(n - 1) ELSE Z
                r == CondRes(t.rel, x, y, c) IN
            IF r = "sym" THEN {R(Err(m, "SYMBOLIC_BRANCH"), env, NoEff)}
            ELSE {R(IF r = "yes" THEN Take(m) ELSE Adv(m), env, NoEff)}
  \* ---- stack / own memory ------------------------------------------------
  ELSE IF op = "push" /\ n = 1 THEN
       LET ad == AddrOf(m.reg[SP]) IN
       IF ad < 0 THEN {R(Err(m, "STACK_RANGE"), env, NoEff)}
       ELSE {R([MemWrite(m, ad, V(1)) EXCEPT !.reg[SP] = Q(ad + 1), !.pc = m.pc + 1], env, NoEff)}
  ELSE IF op \in {"pop", "peek"} /\ n = 1 THEN
       LET ad == AddrOf(Sub(m.reg[SP], One)) IN
       IF ad < 0 THEN {R(Err(m, "STACK_RANGE"), env, NoEff)}
       ELSE { R(LET m1 == IF op = "pop" THEN [m EXCEPT !.reg[SP] = Q(ad)] ELSE m IN SetR(m1, a[1], p[1]), p[2], NoEff)
                : p \in MemRead(m, env, ad, Dom) }
  ELSE IF op = "poke" /\ n = 2 THEN
       LET ad == AddrOf(V(1)) IN
       IF ad < 0 THEN {R(Err(m, "STACK_RANGE"), env, NoEff)}
       ELSE {R(Adv(MemWrite(m, ad, V(2))), env, NoEff)}
  ELSE IF op = "get" /\ n = 3 /\ IsSelf(a[2]) THEN
       LET ad == AddrOf(V(3)) IN
       IF ad < 0 THEN {R(Err(m, "STACK_RANGE"), env, NoEff)}
       ELSE {R(SetR(m, a[1], p[1]), p[2], NoEff) : p \in MemRead(m, env, ad, Dom)}
  ELSE IF op = "put" /\ n = 3 /\ IsSelf(a[1]) THEN
       LET ad == AddrOf(V(2)) IN
       IF ad < 0 THEN {R(Err(m, "STACK_RANGE"), env, NoEff)}
       ELSE {R(Adv(MemWrite(m, ad, V(3))), env, NoEff)}
  \* ---- other devices' memory ----------------------------------------------
  ELSE IF op \in {"get", "getd"} /\ n = 3 THEN
       {R(SetR(m, a[1], p[1]), p[2], NoEff) : p \in EnvRead(env, Key("get", Dev(m, a[2]), V(3), Z, Z, Z), Dom)}
  ELSE IF op \in {"put", "putd"} /\ n = 3 THEN
       {R(Adv(m), env, Eff("put", Dev(m, a[1]), V(2), Z, Z, V(3)))}
  ELSE IF op \in {"clr", "clrd"} /\ n = 1 /\ ~IsSelf(a[1]) THEN
       {R(Adv(m), env, Eff("clr", Dev(m, a[1]), Z, Z, Z, Z))}
  \* ---- device reads --------------------------------------------------------
  ELSE IF op = "l" /\ n = 3 THEN
       {R(SetR(m, a[1], p[1]), p[2], NoEff) : p \in EnvRead(env, Key("l", Dev(m, a[2]), V(3), Z, Z, Z), Dom)}
  ELSE IF op = "ls" /\ n = 4 THEN
       {R(SetR(m, a[1], p[1]), p[2], NoEff) : p \in EnvRead(env, Key("ls", Dev(m, a[2]), V(3), V(4), Z, Z), Dom)}
  ELSE IF op = "lr" /\ n = 4 THEN
       {R(SetR(m, a[1], p[1]), p[2], NoEff) : p \in EnvRead(env, Key("lr", Dev(m, a[2]), V(3), V(4), Z, Z), Dom)}
  ELSE IF op = "lb" /\ n = 4 THEN
       {R(SetR(m, a[1], p[1]), p[2], NoEff) : p \in EnvRead(env, Key("lb", V(2), V(3), V(4), Z, Z), Dom)}
  ELSE IF op = "lbn" /\ n = 5 THEN
       {R(SetR(m, a[1], p[1]), p[2], NoEff) : p \in EnvRead(env, Key("lbn", V(2), V(3), V(4), V(5), Z), Dom)}
  ELSE IF op = "lbs" /\ n = 5 THEN
       {R(SetR(m, a[1], p[1]), p[2], NoEff) : p \in EnvRead(env, Key("lbs", V(2), V(3), V(4), V(5), Z), Dom)}
  ELSE IF op = "lbns" /\ n = 6 THEN
       {R(SetR(m, a[1], p[1]), p[2], NoEff) : p \in EnvRead(env, Key("lbns", V(2), V(3), V(4), V(5), V(6)), Dom)}
  ELSE IF op = "rmap" /\ n = 3 THEN
       {R(SetR(m, a[1], p[1]), p[2], NoEff) : p \in EnvRead(env, Key("rmap", Dev(m, a[2]), V(3), Z, Z, Z), Dom)}
  ELSE IF op \in {"sdse", "sdns"} /\ n = 2 THEN
       { R(SetR(m, a[1], IF op = "sdse" THEN p[1] ELSE B2V(p[1] = Z)), p[2], NoEff)
           : p \in EnvRead(env, Key("dse", Dev(m, a[2]), Z, Z, Z, Z), BoolDom) }
  \* ---- device writes: the externally visible effects -----------------------
  ELSE IF op = "s" /\ n = 3 THEN {R(Adv(m), env, Eff("s", Dev(m, a[1]), V(2), Z, Z, V(3)))}
  ELSE IF op = "ss" /\ n = 4 THEN {R(Adv(m), env, Eff("ss", Dev(m, a[1]), V(2), V(3), Z, V(4)))}
  ELSE IF op = "sb" /\ n = 3 THEN {R(Adv(m), env, Eff("sb", V(1), V(2), Z, Z, V(3)))}
  ELSE IF op = "sbn" /\ n = 4 THEN {R(Adv(m), env, Eff("sbn", V(1), V(2), V(3), Z, V(4)))}
  ELSE IF op = "sbs" /\ n = 4 THEN {R(Adv(m), env, Eff("sbs", V(1), V(2), V(3), Z, V(4)))}
  ELSE IF op = "yield" /\ n = 0 THEN {R(Adv(m), env, Eff("yield", Z, Z, Z, Z, Z))}
  ELSE IF op = "sleep" /\ n = 1 THEN {R(Adv(m), env, Eff("sleep", Z, Z, Z, Z, V(1)))}
  ELSE IF op = "hcf" /\ n = 0 THEN {R(Halt(m), env, Eff("hcf", Z, Z, Z, Z, Z))}
  ELSE {R(Err(m, "UNSUPPORTED_INSTRUCTION"), env, NoEff)}

\* ---- monitors (history fields of the machine; never influence behaviour) ----
\* i.ent  TRUE on the entry label line of an out-of-line function
\* i.cal  on jal / b*al lines that call a function: [ar |-> arity, pp |-> push/pop convention]
\* i.rv   on "j ra" lines: 1 if the function returns a value in the push/pop convention else 0
\* i.tc   TRUE on a "j f" that is a tail call
\* sh     sequence of <<return line, sp at the call before the arguments>>
\* fl     the previous step reached this line by falling through
\* mv     first monitor verdict ("" = none)
HasF(i, f) == f \in DOMAIN i
Monitor(P, m, m2) ==
  IF m2.st = "err" \/ m.mv # "" \/ m.pc >= Len(P) THEN m2
  ELSE
  LET i == P[m.pc + 1]
      seq == m2.st = "run" /\ m2.pc = m.pc + 1
      m3 == [m2 EXCEPT !.fl = seq]
  IN
  IF HasF(i, "ent") /\ i.ent /\ m.fl THEN [m3 EXCEPT !.mv = "FALLTHROUGH"]
  \* a plain jump (not a call, not a tail call out of another function) lands on a function's entry label
  ELSE IF i.op = "j" /\ ~HasF(i, "cal") /\ ~HasF(i, "tc") /\ m2.st = "run" /\ m2.pc < Len(P)
          /\ HasF(P[m2.pc + 1], "ent") /\ P[m2.pc + 1].ent THEN [m3 EXCEPT !.mv = "ENTERED_WITHOUT_CALL"]
  ELSE IF HasF(i, "cal") /\ m2.pc # m.pc + 1 THEN
       \* a taken call
       LET spv == m.reg[SP]
           sp0 == IF IsInt(spv) THEN spv[1] - (IF i.cal.pp THEN i.cal.ar ELSE 0) ELSE -1 IN
       [m3 EXCEPT !.sh = Append(m.sh, <<m.pc + 1, sp0>>)]
  ELSE IF HasF(i, "rv") /\ i.op = "j" THEN
       \* a function return
       IF Len(m.sh) = 0 THEN [m3 EXCEPT !.mv = "RETURN_WITHOUT_CALL"]
       ELSE LET top == m.sh[Len(m.sh)]
                spv == m.reg[SP] IN
            IF m2.pc # top[1] THEN [m3 EXCEPT !.mv = "BAD_RETURN"]
            ELSE IF ~IsInt(spv) \/ spv[1] # top[2] + i.rv THEN [m3 EXCEPT !.mv = "SP_DRIFT"]
            ELSE [m3 EXCEPT !.sh = SubSeq(m.sh, 1, Len(m.sh) - 1)]
  ELSE m3

IcSuccMon(P, m, env, Dom) ==
  { [r EXCEPT !.m = Monitor(P, m, r.m)] : r \in IcSucc(P, m, env, Dom) }
=============================================================================
