------------------------------ MODULE FoldGrid ------------------------------
(***************************************************************************)
(* Compile-time evaluation (C03): whenever the transpiler replaces an      *)
(* expression by a literal, the literal is the value the un-folded IC10    *)
(* instruction would produce for the same operands.                        *)
(*                                                                         *)
(* SpecGen enumerates the operator x operand grid (operands from the value *)
(* classes where IC10 semantics are unambiguous: small and large integers, *)
(* dyadic fractions, both signs; positive moduli; shift counts 0..8);      *)
(* every grid point is rendered as a source expression and compiled.       *)
(* SpecJudge takes, per grid point, the operand the compiler printed       *)
(* (resolved by the loader to a Values.tla value) and compares it with     *)
(* the IC10 ALU of IC10Core.tla / Values.tla applied to the operands.      *)
(***************************************************************************)
EXTENDS IC10Core, Json

IntVals == {-8, -3, -1, 0, 1, 2, 3, 5, 8, 255, 256, 1000, 65536}
SmallInts == {-3, -1, 0, 1, 2, 3, 5}
FracVals == {<<1, 2>>, <<-1, 2>>, <<3, 2>>, <<5, 4>>, <<3, 8>>}
AllVals == {Q(i) : i \in IntVals} \cup FracVals
Arith == {"add", "sub", "mul", "div"}
BitOps == {"and", "or", "xor", "band"}
NonNeg == {i \in IntVals : i >= 0}

\* the grid: records [op, a, b] (b = Z for unary operators)
Grid ==
  {[op |-> o, a |-> x, b |-> y] : o \in Arith \cup Rels, x \in AllVals, y \in AllVals}
  \cup {[op |-> "pow", a |-> x, b |-> Q(k)] : x \in AllVals, k \in {-2, -1, 0, 1, 2, 3}}
  \cup {[op |-> "mod", a |-> x, b |-> y] : x \in AllVals, y \in {v \in AllVals : SignOf(v) = "pos"}}
  \cup {[op |-> o, a |-> Q(i), b |-> Q(j)] : o \in BitOps, i \in IntVals, j \in IntVals}
  \cup {[op |-> o, a |-> Q(i), b |-> Q(k)] : o \in {"sll", "srl"}, i \in NonNeg, k \in 0..8}
  \cup {[op |-> o, a |-> x, b |-> Z] : o \in {"neg", "not"}, x \in AllVals}

\* what the chip computes
Expected(p) ==
  IF p.op \in Rels THEN (LET r == CondRes(p.op, p.a, p.b, Z) IN IF r = "sym" THEN OVF ELSE B2V(r = "yes"))
  ELSE IF p.op = "neg" THEN Sub(Z, p.a)
  ELSE IF p.op = "not" THEN B2V(p.a = Z)
  ELSE IF p.op = "band" THEN Alu2("and", p.a, p.b)
  ELSE Alu2(p.op, p.a, p.b)

\* doubles represent dyadic rationals exactly (within range): only then is exact equality demanded
RECURSIVE IsPow2(_)
IsPow2(d) == d = 1 \/ (d % 2 = 0 /\ IsPow2(d \div 2))
ExactlyRepresentable(v) == IsQ(v) /\ IsPow2(v[2])

VARIABLES tid, verdict
\* ---- part 1: enumerate the grid -----------------------------------------------------------
GInit == tid = 0 /\ verdict \in {ToJson(p) : p \in Grid}
SpecGen == GInit /\ [][UNCHANGED <<tid, verdict>>]_<<tid, verdict>>
ExportGrid == PrintT(<<"POINT", verdict>>)

\* ---- part 2: judge what the compiler printed -------------------------------------------------
Cases == JsonDeserialize("cases.json")
\* case: [op, a, b, got]   got = value of the printed operand; <<"dyn">> when the compiler did not fold
Verdict(c) ==
  LET e == Expected(c) IN
  IF c.got = <<"dyn">> THEN "NOT_FOLDED"
  ELSE IF IsSym(e) THEN "INCONCLUSIVE:EXPECTED_SYMBOLIC"
  ELSE IF e = c.got THEN "OK"
  ELSE IF ExactlyRepresentable(e) /\ ~IsSym(c.got) THEN "FOLDED_VALUE_DIFFERS"
  ELSE "INEXACT_NEEDS_ROUNDING_ORACLE"
JInit == tid \in 1..Len(Cases) /\ verdict = ""
Judge == verdict = "" /\ verdict' = Verdict(Cases[tid]) /\ UNCHANGED tid
Report == /\ verdict \notin {"", "reported"} /\ PrintT(<<"VERDICT", tid, verdict>>)
          /\ verdict' = "reported" /\ UNCHANGED tid
SpecJudge == JInit /\ [][Judge \/ Report]_<<tid, verdict>>

ASSUME Expected([op |-> "and", a |-> Q(3), b |-> Q(5)]) = Q(1) /\ Expected([op |-> "or", a |-> Q(2), b |-> Q(4)]) = Q(6)
ASSUME Expected([op |-> "not", a |-> Q(5), b |-> Z]) = Z /\ Expected([op |-> "lt", a |-> <<1, 2>>, b |-> Q(1)]) = One
ASSUME Expected([op |-> "mod", a |-> Q(-8), b |-> Q(3)]) = Q(1) /\ Expected([op |-> "srl", a |-> Q(256), b |-> Q(4)]) = Q(16)
=============================================================================
