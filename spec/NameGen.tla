------------------------------ MODULE NameGen ------------------------------
(***************************************************************************)
(* The strings a program can use as device names / HASH arguments (C08's   *)
(* "all strings"), as a state machine: a name grows atom by atom.  The     *)
(* atoms are the characters that mean something to one of the layers a     *)
(* name passes through - Python source, the transpiler's token handling,   *)
(* the compact-mode shortening, IC10's own syntax: digits and a sign (a    *)
(* name that reads as a number), '$' and 'x' (hex spellings), blanks, '#'  *)
(* (IC10 comment), brackets and ':' (the HASH("...") wrapper, labels),     *)
(* '.', '_', ';', a backslash, an apostrophe, a non-ASCII letter; a name   *)
(* may also carry its own pair of double quotes, which the transpiler      *)
(* strips (quoted = TRUE; then the CRC is that of the inner text).         *)
(* TLC enumerates every name of up to MaxAtoms atoms and exports it with   *)
(* the number HASH("name") stands for (Crc32.tla); the harness puts each   *)
(* into a program as HASH("...") and as a device name and compares the     *)
(* verbose and compact outputs (Compact.tla).                              *)
(***************************************************************************)
EXTENDS Integers, Sequences, FiniteSets, TLC, Json, Crc32

CONSTANT MaxAtoms

Atoms == << <<49>>, <<48>>, <<55>>, <<45>>, <<97>>, <<90>>, <<32>>, <<40>>, <<41>>, <<35>>, <<46>>, <<36>>, <<120>>, <<95>>,
            <<195, 169>>, <<92>>, <<59>>, <<39>>, <<58>> >>
\*            1       0       7       -       a       Z      ' '     (       )       #       .       $       x       _
\*            e-acute         \       ;       '       :

VARIABLES atoms, quoted, done
vars == <<atoms, quoted, done>>
Init == atoms = <<>> /\ quoted \in BOOLEAN /\ done = FALSE
Grow(a) == ~done /\ Len(atoms) < MaxAtoms /\ atoms' = Append(atoms, a) /\ UNCHANGED <<quoted, done>>
Finish == ~done /\ (Len(atoms) > 0 \/ quoted) /\ done' = TRUE /\ UNCHANGED <<atoms, quoted>>
Next == (\E a \in 1..Len(Atoms) : Grow(a)) \/ Finish
Spec == Init /\ [][Next]_vars

RECURSIVE Flat(_)
Flat(s) == IF s = <<>> THEN <<>> ELSE Atoms[Head(s)] \o Flat(Tail(s))
Inner == Flat(atoms)
\* what stands in the Python source, and what the chip hashes
Written == IF quoted THEN <<34>> \o Inner \o <<34>> ELSE Inner
Export == done => PrintT(<<"NAME", ToJson([written |-> Written, hashed |-> Inner, value |-> SignedCrc32(Inner), quoted |-> quoted])>>)
=============================================================================
