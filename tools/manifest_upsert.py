#!/usr/bin/env python3
"""Upsert check entries into MANIFEST.json from tools/manifest_entries.json and keep not_applicable in step."""
import json, sys
M = "/verif/MANIFEST.json"
m = json.load(open(M))
entries = json.load(open("/verif/tools/manifest_entries.json"))
by = {c["property_id"]: c for c in m["checks"]}
NOTE = ("Trusted: TLC; the TLA+ modules named in the technique field as the statement of what the property means; the harness "
        "pieces that extract artefacts (named in the evidence file's assumptions). ")
for pid, e in entries.items():
    c = by.get(pid, {"property_id": pid})
    c.update({
        "property_id": pid,
        "quick_cmd": "/venv/bin/python /verif/check.py %s --tier quick" % pid,
        "thorough_cmd": "/venv/bin/python /verif/check.py %s --tier thorough" % pid,
        "evidence_file": "/verif/evidence/%s.json" % pid,
        "replay_cmd_template": "cat {path}",
        "engine": "tlc",
        "level_claimed": {"category": e["category"], "text": e["text"], "design_ref": e["design_ref"]},
        "level_note": e.get("note", NOTE),
        "technique": e["technique"],
    })
    by[pid] = c
m["checks"] = [by[k] for k in sorted(by)]
claimed = set(by)
m["not_applicable"] = [n for n in m.get("not_applicable", []) if n["property_id"] not in claimed]
for eng in m.get("engines", []):
    if eng["name"] == "tlc":
        eng["serves_properties"] = sorted(claimed)
json.dump(m, open(M, "w"), indent=1)
print("claimed:", sorted(claimed), "not_applicable:", [n["property_id"] for n in m["not_applicable"]])
