#!/usr/bin/env python3
"""Markdown table of the seeded changes (from seeded/*/meta.json) for DESIGN.md 13.6."""
import glob, json, os
rows = []
for d in sorted(glob.glob("/verif/seeded/*")):
    mp = os.path.join(d, "meta.json")
    if not os.path.exists(mp):
        continue
    m = json.load(open(mp))
    det = m.get("detection", {})
    by = sorted({k.split(":")[0] for k, v in det.items() if v.get("rc") == 1 and v.get("violations", 0) > 0})
    tried = sorted({k.split(":")[0] for k in det})
    conf = m.get("confirmation", {}).get("confirmed")
    summ = (m.get("summary") or "").replace("|", "/").replace("\n", " ")
    rows.append("| %s | %s | %s | %s | %s |" % (os.path.basename(d), m.get("property", ""), summ[:150], ", ".join(by) or "-", "yes" if conf else "NO"))
print("| seeded change | property | what was changed | checks that report it (quick tier) | confirmed |")
print("|---|---|---|---|---|")
print("\n".join(rows))
