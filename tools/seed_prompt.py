#!/usr/bin/env python3
"""Prints the prompt given to an independent sub-agent that seeds a property-breaking change.
Only the property text and the scratch worktree path are given (nothing from /verif)."""
import json, sys
pid = sys.argv[1]
n = sys.argv[2] if len(sys.argv) > 2 else "2"
hint = sys.argv[3] if len(sys.argv) > 3 else ""
for l in open("/verif/properties.jsonl"):
    d = json.loads(l)
    if d["id"] == pid:
        break
wt = "/tmp/seed/wt_%s" % pid
out = "/tmp/seed/out_%s" % pid
print(f"""You are helping to evaluate a verification effort for the open-source project aproposmath/stationeers-pytrapic (PyTrapIC: a transpiler from a Python subset to Stationeers IC10 assembly). You have your own scratch git worktree of the repository at {wt} (a detached checkout). Work ONLY inside {wt} and write your deliverables to {out}. Do not read or touch /repo, /verif or any other directory outside {wt} and {out} (do not look for verification machinery; your work must be independent of it).

Here is a semantic property the project is supposed to satisfy:

  id: {d['id']}
  title: {d['title']}
  statement: {d['statement']}
  quantified over: {d['quantifier']['text']}
  code it is anchored in: {', '.join(d['anchors'].get('files', []))}

TASK: produce {n} DIFFERENT, independent, realistic source changes to the project (the kind of change a maintainer could plausibly make: a refactoring slip, an 'optimisation', an off-by-one, a wrong table entry, a reordered step, a narrowed exception handler...) each of which BREAKS this property while the code still imports/compiles and the project's existing test suite STILL PASSES. Prefer changes that need something specific to manifest (an unusual input, a particular multi-step sequence of operations, a particular option combination, a fault at a particular point, or two cooperating sites that each look fine alone) - NOT changes that ordinary use would expose at once, and not changes that merely crash everything. Each change should be small (a few lines) and confined to files under src/ (not tests, not .ref files). {hint}

How to run things (no network is available; do not try to install anything):
  - run the existing test suite against YOUR worktree:   cd {wt} && PYTHONPATH={wt}/src /venv/bin/python -m pytest -q -p no:cacheprovider --timeout=900 -x -q 2>&1 | tail -5
    (PYTHONPATH is REQUIRED: without it python imports the package from another checkout. Verify with: PYTHONPATH={wt}/src /venv/bin/python -c "import stationeers_pytrapic; print(stationeers_pytrapic.__file__)" which must print a path under {wt}.) The suite has 94 tests and takes about 25 s. Two tests named constexpr_eval are known to be flaky under load; rerun them if they fail in isolation.
  - compile a program:  PYTHONPATH={wt}/src /venv/bin/python -c "from stationeers_pytrapic.compiler import compile_code, CompileOptions; print(compile_code(open('x.py').read(), CompileOptions(append_version=False))['code'])"
  - programs start with `from stationeers_pytrapic.symbols import *`; look at test/cases/*.py, src/stationeers_pytrapic/examples/*.py and README.md for the dialect.

For EACH change k = 1..{n} deliver in {out}/m<k>/ :
  - patch.diff : output of `git -C {wt} diff` for that change alone (relative to the unmodified HEAD; it must apply with `git apply` to a clean checkout)
  - demo.py : a small self-contained Python script (run as `PYTHONPATH=<checkout>/src /venv/bin/python demo.py`) that exits 0 and prints PASS on the unmodified code and exits 1 and prints FAIL (with a short explanation of the wrong behaviour) on the changed code. The demo must demonstrate a violation of the PROPERTY as stated (for compiler-output properties, a tiny IC10 interpreter inside the demo, or a direct comparison of emitted text that makes the semantic difference evident, is fine).
  - meta.json : {{"property": "{pid}", "summary": "<one sentence: what was changed>", "needs": "<what specific input/sequence/option combination is needed for the breakage to manifest>", "files": [...]}}
Before finishing each change: (1) apply it, run the full test suite and confirm it still passes, (2) run demo.py and confirm FAIL, (3) `git -C {wt} checkout -- .` to undo, run demo.py and confirm PASS. Do NOT use `git stash` (it is shared between all worktrees of the repository and other people work in theirs); use `git diff > file`, `git checkout -- .` and `git apply file`. Leave the worktree clean (no modifications) at the end. Finally reply with a short list of the changes you delivered and whether each was confirmed (tests pass, demo fails with / passes without).""")
