#!/bin/bash
# seed_resweep.sh [parallel] : every stored seeded change against the current checks (quick tier, the checks that reported it
# before, or its own property's check), a few at a time; each run has its own scratch worktree and work directory
par=${1:-3}
cd "$(dirname "$0")/.."
python3 - <<'PY' > /tmp/seed_resweep.list
import glob, json, os
for d in sorted(glob.glob("/verif/seeded/*")):
    mp = os.path.join(d, "meta.json")
    if not os.path.exists(mp):
        continue
    m = json.load(open(mp))
    checks = m.get("detected_by") or [m.get("property")]
    print(d, " ".join(checks))
PY
cat /tmp/seed_resweep.list | xargs -P "$par" -L 1 sh -c 'python3 tools/seed_eval.py both "$@" 2>&1 | tail -1 | cut -c1-220' _
