#!/bin/bash
# run_all.sh <tier> : every check of the tier, one after another; one summary line per check
tier=${1:-quick}
cd "$(dirname "$0")/.."
for c in ${CHECKS:-C01 C02 C03 C04 C05 C06 C07 C08 C09 C10 C11 C12 C13 C14 C15 C16 C17 C18}; do
  s=$(date +%s)
  out=$(/venv/bin/python check.py $c --tier $tier 2>&1)
  rc=$?
  e=$(date +%s)
  echo "$c rc=$rc wall=$((e-s))s violations=$(echo "$out" | grep -c '^VIOLATION') known=$(echo "$out" | grep -c '^KNOWN-FINDING')"
  echo "$out" | grep -E '^(VIOLATION|MACHINERY)' | head -5 | cut -c1-300
done
