#!/usr/bin/env python3
"""Confirm a seeded change and run checks against it.

  seed_eval.py confirm <dir>            dir holds patch.diff + demo.py: tests pass with the patch, demo FAILs with / PASSes without
  seed_eval.py run <dir> C02 C06 ...    run the quick tier of the given checks against a scratch worktree with the patch applied
Scratch worktrees live under /tmp/seedrun and are removed afterwards."""
import json, os, shutil, subprocess, sys, tempfile, time

REPO = "/repo"
PY = "/venv/bin/python"


def sh(cmd, **kw):
    return subprocess.run(cmd, shell=isinstance(cmd, str), stdout=subprocess.PIPE, stderr=subprocess.STDOUT, text=True, **kw)


def make_wt(patch=None):
    os.makedirs("/tmp/seedrun", exist_ok=True)
    d = tempfile.mkdtemp(prefix="wt_", dir="/tmp/seedrun")
    os.rmdir(d)
    r = sh(["git", "-C", REPO, "worktree", "add", "-f", "--detach", d, "HEAD"])
    assert r.returncode == 0, r.stdout
    shutil.copy(os.path.join(REPO, "src/stationeers_pytrapic/_version.py"), os.path.join(d, "src/stationeers_pytrapic/_version.py"))
    if patch:
        r = sh(["git", "-C", d, "apply", os.path.abspath(patch)])
        if r.returncode != 0:  # the tree moved on (fix commits) since the patch was written: three-way merge on the recorded blobs
            r = sh(["git", "-C", d, "apply", "--3way", os.path.abspath(patch)])
        assert r.returncode == 0, "patch does not apply: " + r.stdout
    return d


def drop_wt(d):
    sh(["git", "-C", REPO, "worktree", "remove", "--force", d])
    shutil.rmtree(d, ignore_errors=True)
    sh(["git", "-C", REPO, "worktree", "prune"])


def env_for(d):
    e = dict(os.environ)
    e["PYTHONPATH"] = os.path.join(d, "src")
    e.pop("PYTHONDONTWRITEBYTECODE", None)
    e.pop("PYTRAPIC_VERIF", None)
    return e


def confirm(sd):
    patch = os.path.join(sd, "patch.diff")
    demo = os.path.abspath(os.path.join(sd, "demo.py"))
    out = {}
    d = make_wt(patch)
    try:
        r = sh([PY, "-m", "pytest", "-q", "-p", "no:cacheprovider", "--timeout=900"], cwd=d, env=env_for(d))
        tail = r.stdout.strip().splitlines()[-1] if r.stdout.strip() else ""
        if r.returncode != 0:  # constexpr tests time out under load (1 s helper limit): rerun those a few times
            for attempt in range(5):
                time.sleep(3 * attempt)
                r2 = sh([PY, "-m", "pytest", "-q", "-p", "no:cacheprovider", "--timeout=900", "-k", "constexpr or sorter"], cwd=d, env=env_for(d))
                if r2.returncode == 0:
                    break
            fails = [l for l in r.stdout.splitlines() if l.startswith("FAILED")]
            only_flaky = all(("constexpr" in l or "sorter" in l) for l in fails)
            out["tests_with_patch"] = "pass (after rerun of load-sensitive constexpr tests)" if (only_flaky and r2.returncode == 0) else "FAIL: " + tail
        else:
            out["tests_with_patch"] = "pass: " + tail
        r = sh([PY, demo], cwd=d, env=env_for(d), timeout=900)
        out["demo_with_patch"] = {"rc": r.returncode, "tail": r.stdout.strip()[-300:]}
    finally:
        drop_wt(d)
    d = make_wt(None)
    try:
        r = sh([PY, demo], cwd=d, env=env_for(d), timeout=900)
        out["demo_without_patch"] = {"rc": r.returncode, "tail": r.stdout.strip()[-300:]}
    finally:
        drop_wt(d)
    out["confirmed"] = out["tests_with_patch"].startswith("pass") and out["demo_with_patch"]["rc"] != 0 and out["demo_without_patch"]["rc"] == 0
    return out


def run(sd, checks, tier="quick"):
    patch = os.path.join(sd, "patch.diff")
    d = make_wt(patch)
    res = {}
    try:
        for c in checks:
            e = dict(os.environ)
            e["VERIF_REPO"] = d
            e["VERIF_NO_EVIDENCE"] = "1"
            t = time.time()
            r = sh([PY, "/verif/check.py", c, "--tier", tier], env=e, cwd="/verif", timeout=7200)
            viol = [l for l in r.stdout.splitlines() if l.startswith("VIOLATION")]
            res[c] = {"rc": r.returncode, "violations": len(viol), "first": viol[0][:300] if viol else "", "wall": round(time.time() - t),
                      "tail": r.stdout.strip()[-400:] if r.returncode == 2 else ""}
    finally:
        drop_wt(d)
    return res


def both(sd, checks):
    mp = os.path.join(sd, "meta.json")
    meta = json.load(open(mp)) if os.path.exists(mp) else {}
    if not meta.get("confirmation", {}).get("confirmed"):
        meta["confirmation"] = confirm(sd)
    meta["confirmation"]["how"] = ("scratch worktree of /repo HEAD + patch.diff: full pytest suite with PYTHONPATH=<worktree>/src, then demo.py; "
                                   "then demo.py on an unpatched scratch worktree (tools/seed_eval.py)")
    det = meta.setdefault("detection", {})
    tier = os.environ.get("SEED_TIER", "quick")
    for c, r in run(sd, checks, tier).items():
        det[c + ":" + tier] = r
    meta["detected_by"] = sorted({k.split(":")[0] for k, v in det.items() if v["rc"] == 1 and v["violations"] > 0})
    json.dump(meta, open(mp, "w"), indent=1)
    print(sd, "confirmed=%s" % meta["confirmation"]["confirmed"], "detected_by=%s" % meta["detected_by"],
          {k: (v["rc"], v["violations"]) for k, v in det.items()})


if __name__ == "__main__":
    if sys.argv[1] == "both":
        both(sys.argv[2], sys.argv[3:])
    elif sys.argv[1] == "confirm":
        print(json.dumps(confirm(sys.argv[2]), indent=1))
    else:
        tier = os.environ.get("SEED_TIER", "quick")
        print(json.dumps(run(sys.argv[2], sys.argv[3:], tier), indent=1))
