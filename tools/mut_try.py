#!/usr/bin/env python3
"""mut_try.py <file under repo> <old> <new> check...  : apply a textual mutation in a scratch worktree and run quick checks."""
import os, subprocess, sys
sys.path.insert(0, "/verif/tools")
import seed_eval as S
f, old, new, checks = sys.argv[1], sys.argv[2], sys.argv[3], sys.argv[4:]
d = S.make_wt(None)
try:
    p = os.path.join(d, f); s = open(p).read()
    assert s.count(old) >= 1, "pattern not found"
    open(p, "w").write(s.replace(old, new, 1))
    for c in checks:
        e = dict(os.environ); e["VERIF_REPO"] = d; e["VERIF_NO_EVIDENCE"] = "1"
        r = S.sh([S.PY, "/verif/check.py", c, "--tier", "quick"], env=e, cwd="/verif")
        v = [l for l in r.stdout.splitlines() if l.startswith(("VIOLATION", "MACHINERY"))]
        print(c, "rc=%d" % r.returncode, "violations=%d" % len(v), (v[0][:220] if v else ""))
finally:
    S.drop_wt(d)
