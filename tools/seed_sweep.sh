#!/bin/bash
# seed_sweep.sh "<checks>" "<seeds>" : quick tier of the given checks under several VERIF_SEED values (evidence untouched)
cd "$(dirname "$0")/.."
for s in $2; do
  for c in $1; do
    out=$(VERIF_SEED=$s VERIF_NO_EVIDENCE=1 /venv/bin/python check.py $c --tier quick 2>&1); rc=$?
    echo "seed=$s $c rc=$rc violations=$(echo "$out" | grep -c '^VIOLATION')"
    echo "$out" | grep -E '^(VIOLATION|MACHINERY)' | head -4 | cut -c1-260
  done
done
